// C19 — integrators honour the step/report/final-time contract.
// The simulated "client" issues a seeded sequence of stepTo/stepBy requests against the
// real integrators on an analytic harness system, performs the time stepper's duties after
// event returns, injects evaluation and handler faults, and checks the contract after
// every return.
#include "isys.h"
using namespace hi;
using vf::Plan; using vf::Op; using vf::Result; using vf::Rng;

struct C19 : vf::Engine {
    const char* property() const override { return "C19"; }

    Plan generate(uint64_t seed, const std::string& tier, const std::string& mode) override {
        Rng r(seed); Plan p; p.property = "C19"; p.seed = seed;
        bool faults = mode == "faults";
        int integ = (int)r.below(NINTEG);
        p.setcfg("integ", integ);
        p.setcfg("nosc", r.range(1, 3)); p.setcfg("nz", r.range(0, 2));
        p.setcfg("sys_seed", (uint64_t)(r.next() >> 8));
        // low-order methods at tight accuracy need millions of steps: legitimate, but not what this check is about
        p.setcfgr("accuracy", std::pow(10.0, -r.range(2, (integ == 0 || integ == 1 || integ == 5 || integ == 7) ? 4 : 7)));
        bool fixed = (r.chance(0.25) && integ != 8) || integ == 6;   // CPodes cannot hold a fixed step at a given accuracy (legitimate StepFailed)
        p.setcfgr("fixed", fixed ? r.pick(std::vector<double>{0.001, 0.004, 0.01, 0.03, 0.0625}) : 0.0);
        p.setcfgr("maxstep", (!fixed && r.chance(0.3)) ? r.pick(std::vector<double>{0.02, 0.05, 0.1, 0.25}) : 0.0);
        p.setcfgr("initstep", (!fixed && r.chance(0.2)) ? r.pick(std::vector<double>{0.001, 0.01, 0.1}) : 0.0);
        double T = r.uni(0.5, 4.0);
        bool hasFinal = r.chance(0.75);
        p.setcfgr("final", hasFinal ? T : -1.0);
        p.setcfg("every", r.chance(0.25) ? 1 : (r.chance(0.3) ? 2 : 0));
        p.setcfg("steplimit", r.chance(0.2) ? r.range(1, 12) : 0);
        p.setcfg("interp", r.chance(0.8) ? (r.chance(0.3) ? 2 : 1) : 0);
        // scheduled-event timeline, fixed before the run (see DESIGN 4.2)
        { int ns = r.chance(0.3) ? 0 : r.range(1, 6); std::vector<double> ts;
          for (int i = 0; i < ns; ++i) {
              double t = r.uni(0, T * 1.1);
              if (r.chance(0.1)) t = 0; else if (r.chance(0.1) && hasFinal) t = T; else if (r.chance(0.15) && !ts.empty()) t = ts[r.below(ts.size())];
              else if (r.chance(0.3)) t = std::round(t * 8) / 8;
              ts.push_back(t);
          }
          std::sort(ts.begin(), ts.end());
          std::string s; for (double t : ts) { char b[40]; std::snprintf(b, sizeof b, "%.17g ", t); s += b; }
          p.setcfg("sched", s); }
        // witnesses (time functions sin(w t+phi)-c and state functions q_i-c)
        int nw = r.chance(0.45) ? 0 : r.range(1, 3);
        for (int i = 0; i < nw; ++i) {
            char b[200]; std::snprintf(b, sizeof b, "%d %.17g %.17g %.17g %d %d %.17g", r.chance(0.6) ? 0 : 1, r.uni(1, 9), r.uni(-3, 3), r.uni(-0.8, 0.8), r.chance(0.7) ? 1 : 0, r.chance(0.7) ? 1 : 0,
                                   r.chance(0.6) ? 0.0 : r.pick(std::vector<double>{1e-2, 1e-3, 1e-5, 1.0, 10.0, 100.0}));
            p.setcfg("wit" + std::to_string(i), b);
        }
        int nreq = r.range(3, tier == "thorough" ? 60 : 30);
        for (int k = 0; k < nreq; ++k) {
            /* CPodes: re-initializing the same object can hang (known finding, findings/C19-cpodes-reinit-hang.plan) */ if (k > 1 && r.chance(0.06) && integ != 8) { p.ops.push_back(vf::mkop("reinit").set("how", (int)r.below(2))); continue; }
            Op o = vf::mkop("req");
            int m = (int)r.below(100);
            if (m < 50) o.set("mode", "delta").setr("d", r.chance(0.5) ? r.uni(0.001, 0.2) : r.uni(0.05, 1.5));
            else if (m < 58) o.set("mode", "now");
            else if (m < 64) o.set("mode", "tiny");
            else if (m < 74) o.set("mode", "eqsched");
            else if (m < 82) o.set("mode", "eqfinal");
            else if (m < 90) o.set("mode", "pastfinal").setr("d", r.uni(0.01, 2));
            else if (m < 95) o.set("mode", "inf");
            else o.set("mode", "grid").setr("d", r.pick(std::vector<double>{0.125, 0.25, 0.5}));
            o.set("by", r.chance(0.25) ? 1 : 0);
            p.ops.push_back(o);
        }
        if (faults) {
            int nf = r.range(1, 4);
            for (int i = 0; i < nf; ++i) {
                int k = (int)r.below(100);
                if (k < 40) p.faults.push_back(vf::mkop("throw").set("req", (int)r.below(nreq)).set("nth", r.range(1, 12)).set("burst", r.chance(0.7) ? 1 : r.range(2, 4)));
                else if (k < 70 && nw == 0) p.faults.push_back(vf::mkop("nan").set("req", (int)r.below(nreq)).set("nth", r.range(1, 12)).set("burst", r.chance(0.7) ? 1 : r.range(2, 4)));
                else if (k < 90) p.faults.push_back(vf::mkop("hmod").set("ev", (int)r.below(6)).set("stage", r.range(4, 6)));
                else p.faults.push_back(vf::mkop("hterm").set("ev", (int)r.below(6)));
            }
        }
        return p;
    }

    struct Wit { int kind; double w, phi, c; bool rise, fall; double window; };

    Result execute(const Plan& p) override {
        Result res; vf::Hash key, hash;
        Rng sr((uint64_t)std::strtoull(p.cfg("sys_seed", "1").c_str(), 0, 10));
        int nosc = (int)std::max(0L, std::min(4L, p.cfgn("nosc", 1))), nz = (int)std::max(0L, std::min(3L, p.cfgn("nz", 0)));
        if (nosc + nz == 0) nosc = 1;
        std::vector<Osc> osc; std::vector<Zdef> zs;
        for (int i = 0; i < nosc; ++i) osc.push_back({sr.uni(0.3, 2), sr.uni(0.5, 12), sr.uni(-3, 3)});
        for (int j = 0; j < nz; ++j) zs.push_back({sr.uni(0.5, 2), sr.uni(0.1, 3)});
        FaultCtl ctl; HLog hlog;
        HSystem sys(osc, zs, &ctl);
        // witnesses
        std::vector<Wit> wits;
        for (int i = 0; i < 8; ++i) {
            if (!p.hascfg("wit" + std::to_string(i))) continue;
            std::istringstream is(p.cfg("wit" + std::to_string(i))); Wit w; int rise = 1, fall = 1; w.window = 0;
            is >> w.kind >> w.w >> w.phi >> w.c >> rise >> fall >> w.window; w.rise = rise; w.fall = fall;
            if (!w.rise && !w.fall) w.rise = true;
            wits.push_back(w);
        }
        // handler faults
        int hmodAt = -1, htermAt = -1, hmodStage = 5;
        for (auto& f : p.faults) { if (f.kind == "hmod") { hmodAt = (int)f.num("ev", 0); hmodStage = (int)f.num("stage", 5); } if (f.kind == "hterm") htermAt = (int)f.num("ev", 0); }
        int eventsHandled = 0; bool handlerTerminated = false; Stage handlerLowest = Stage::Report;
        long firedHmod = 0, firedHterm = 0;
        std::vector<TrigHandler*> trig;
        for (size_t i = 0; i < wits.size(); ++i) {
            Wit w = wits[i];
            const int nq = nosc;
            std::function<Real(const State&)> f;
            if (w.kind == 0 || nq == 0) f = [w](const State& s) { return std::sin(w.w * s.getTime() + w.phi) - w.c; };
            else { int qi = (int)i % nq; double c = w.c * osc[qi].A; f = [qi, c](const State& s) { return s.getQ()[qi] - c; }; }
            TrigHandler* h = new TrigHandler((int)i, (w.kind == 0 || nq == 0) ? Stage::Time : Stage::Position, f, &hlog, w.rise, w.fall, w.window);
            sys.addEventHandler(h); trig.push_back(h);
        }
        State init = sys.realizeTopology();
        sys.realizeModel(init);
        int ik = (int)(p.cfgn("integ", 3) % NINTEG); if (ik < 0) ik = 0;
        double fixed = p.cfgr("fixed", 0);
        std::unique_ptr<Integrator> integ(makeIntegrator(ik, sys, fixed));
        integ->setAccuracy(std::min(0.1, std::max(1e-9, p.cfgr("accuracy", 1e-3))));
        if (fixed > 0 && ik != 6) integ->setFixedStepSize(fixed);
        if (p.cfgr("maxstep", 0) > 0 && fixed <= 0) integ->setMaximumStepSize(p.cfgr("maxstep", 0));
        if (p.cfgr("initstep", 0) > 0 && fixed <= 0) integ->setInitialStepSize(p.cfgr("initstep", 0));
        const double f = p.cfgr("final", -1) >= 0 ? p.cfgr("final", -1) : Infinity;
        if (f < Infinity) integ->setFinalTime(f);
        { long ev = p.cfgn("every", 0); if (ev == 1) integ->setReturnEveryInternalStep(true); else if (ev == 2) integ->setReturnEveryInternalStep(false); }   // 0: setter never called (default), 2: explicitly off
        if (p.cfgn("steplimit", 0) > 0) integ->setInternalStepLimit((int)p.cfgn("steplimit", 0));
        { long iv = p.cfgn("interp", 1); if (iv == 0) integ->setAllowInterpolation(false); else if (iv == 2) integ->setAllowInterpolation(true); }   // 1: setter never called (default), 2: explicitly on
        std::vector<double> timeline; { std::istringstream is(p.cfg("sched", "")); double t; while (is >> t) if (t >= 0) timeline.push_back(t); std::sort(timeline.begin(), timeline.end()); }

        res.count(std::string("integ_") + IntegNames[ik]);
        try { integ->initialize(init); }
        catch (const std::exception& e) { res.inconclusive = true; res.detail = std::string("initialize failed: ") + e.what(); return res; }

        auto S = [](double v) { char b[40]; std::snprintf(b, sizeof b, "%.17g", v); return std::string(b); };
        const std::string isig = std::string("integrator=") + IntegNames[ik];
        double lastT = integ->getTime(), lastAdv = integ->getAdvancedTime();
        double lastEventTime = -Infinity;
        bool over = false; int nEnd = 0;
        std::set<int> statuses; bool sawInterp = false;
        int reqIndex = -1;
        for (auto& op : p.ops) {
            if (op.kind == "reinit") {
                // the same Integrator object is initialized again (a restart): from the original initial
                // state, or from the state it has reached. Everything the contract says holds per initialization.
                State again = op.num("how", 0) ? State(integ->getAdvancedState()) : State(init);
                try { integ->initialize(again); } catch (const std::exception& e) { res.inconclusive = true; res.detail = std::string("re-initialize failed: ") + e.what(); break; }
                if (integ->getTime() != again.getTime() || integ->getAdvancedTime() != again.getTime())
                    res.fail("initialize-wrong-time", isig + " clause=2", "after initialize() at t=" + S(again.getTime()) + " getTime()=" + S(integ->getTime()) + " getAdvancedTime()=" + S(integ->getAdvancedTime()));
                if (integ->isSimulationOver()) res.fail("over-after-initialize", isig + " clause=5", "isSimulationOver() still true after initialize()");
                lastT = integ->getTime(); lastAdv = integ->getAdvancedTime(); lastEventTime = -Infinity; over = false; nEnd = 0; handlerTerminated = false;
                res.count("probe_reinitialized");
                key.mix(99);
                if (res.violation) break;
                continue;
            }
            if (op.kind != "req") continue;
            ++reqIndex;
            if (over) continue;
            const double t0 = integ->getTime();
            // earliest undelivered scheduled-event time, as a time stepper would pass it
            double s = Infinity;
            for (double t : timeline) if (t > t0 || (t == t0 && lastEventTime != t0)) { s = t; break; }
            double rt; std::string m = op.str("mode", "delta");
            if (m == "now") rt = t0; else if (m == "tiny") rt = t0 + 1e-9; else if (m == "eqsched") rt = (s < Infinity ? s : t0 + 0.1);
            else if (m == "eqfinal") rt = (f < Infinity ? f : t0 + 0.2); else if (m == "pastfinal") rt = (f < Infinity ? f : t0) + std::abs(op.real("d", 0.5));
            else if (m == "inf") rt = (f < Infinity || s < Infinity) ? Infinity : t0 + 0.5;   // an unbounded request only when something else bounds it else if (m == "grid") { double g = std::max(1e-3, op.real("d", 0.25)); rt = (std::floor(t0 / g) + 1) * g; }
            else rt = t0 + std::abs(op.real("d", 0.1));
            if (rt < t0) rt = t0;
            bool by = op.num("by", 0) != 0 && rt < Infinity;
            // stepBy(interval, limit) forms t + interval and t + limit itself (both arguments are
            // relative in the implementation); mirror its arithmetic so exact comparisons stay exact
            double sArg = s;
            // A timeline entry must reach the integrator as the same double in every request, so
            // stepBy is used only when t0 + (s - t0) reproduces s exactly; else this request uses stepTo.
            if (by && s < Infinity && t0 + (s - t0) != s) by = false;
            if (by) { rt = t0 + (rt - t0); if (s < Infinity) { sArg = s - t0; s = t0 + sArg; } }
            // arm evaluation faults attached to this request
            ctl.disarm(); bool faultThisReq = false;
            for (auto& fl : p.faults) if ((fl.kind == "throw" || (fl.kind == "nan" && wits.empty())) && fl.num("req", 0) == reqIndex) {
                ctl.arm(fl.kind == "throw" ? std::max(1L, fl.num("nth", 1)) : -1, fl.kind == "nan" ? std::max(1L, fl.num("nth", 1)) : -1, fl.num("burst", 1));
            }
            long firedBefore = ctl.firedThrow + ctl.firedNaN;
            long evals0 = sys.getGuts().totalEvals;
            if (getenv("VERIF_DEBUG")) std::fprintf(stderr, "req %d %s r=%.17g s=%.17g f=%.17g t0=%.17g\n", reqIndex, by ? "by" : "to", rt, s, f, t0);
            Integrator::SuccessfulStepStatus st;
            try { st = by ? integ->stepBy(rt - t0, sArg) : integ->stepTo(rt, s); }
            catch (const std::exception& e) {
                // a throw fault excuses a failure of the request it fired in; a NaN derivative may have been
                // accepted into the trajectory (the integrators do not screen accepted derivatives), so after
                // one fired any later failure is excused as well. Every clause still applies to every return.
                faultThisReq = (ctl.firedThrow + ctl.firedNaN) > firedBefore || ctl.firedNaN > 0;
                ctl.disarm();
                if (faultThisReq) { res.count("failed_legitimately"); break; }
                res.inconclusive = true; res.detail = std::string("stepTo threw without an injected fault: ") + e.what();
                break;
            }
            faultThisReq = (ctl.firedThrow + ctl.firedNaN) > firedBefore;
            if (faultThisReq) res.count("probe_recovered_after_eval_fault");
            ctl.disarm();
            const double t = integ->getTime(), adv = integ->getAdvancedTime();
            const double bound = std::min(rt, std::min(s, f));
            statuses.insert((int)st); if (integ->isStateInterpolated()) sawInterp = true;
            int which = (t == rt ? 1 : 0) | (t == s ? 2 : 0) | (t == f ? 4 : 0);
            key.mix((uint64_t)st * 16 + which + (integ->isStateInterpolated() ? 8 : 0));
            hash.mix((uint64_t)st); hash.mixd(t); hash.mixd(adv);
            res.count(std::string("status_") + Integrator::getSuccessfulStepStatusString(st).c_str());
            res.simtime += std::max(0.0, adv - lastAdv);
            std::string ctx = " [request " + std::to_string(reqIndex) + ": " + (by ? "stepBy" : "stepTo") + " r=" + S(rt) + " s=" + S(s) + " f=" + S(f) + " -> " + Integrator::getSuccessfulStepStatusString(st).c_str() + " t=" + S(t) + " tAdv=" + S(adv) + "]";
            if (sys.getGuts().totalEvals - evals0 > 3000000) res.fail("liveness", isig, "request needed more than 3e6 evaluations" + ctx);
            // (1) no later than the earliest of report, scheduled and final time
            if (!(t <= bound)) res.fail("late-return", isig + " clause=1", "returned state is later than min(report, scheduled, final)" + ctx);
            // (2) time never decreases
            if (t < lastT) res.fail("time-decreased", isig + " clause=2", "getTime() went back from " + S(lastT) + ctx);
            if (adv < lastAdv) res.fail("advanced-time-decreased", isig + " clause=2", "getAdvancedTime() went back from " + S(lastAdv) + ctx);
            if (adv < t) res.fail("advanced-behind-state", isig + " clause=2", "advanced time earlier than returned time" + ctx);
            // (3) advanced state never passes a scheduled event or the final time
            if (!(adv <= std::min(s, f))) res.fail("advanced-passed-limit", isig + " clause=3", "advanced state passed the scheduled-event or final time" + ctx);
            // (4) stops are exact
            switch (st) {
            case Integrator::ReachedReportTime:
                if (!(t == rt || (f < rt && t == f))) res.fail("report-not-exact", isig + " clause=4", "ReachedReportTime but time is neither the report time nor the final time" + ctx);
                break;
            case Integrator::ReachedScheduledEvent:
                if (t != s) res.fail("scheduled-not-exact", isig + " clause=4", "ReachedScheduledEvent but time differs from the scheduled time" + ctx);
                break;
            case Integrator::EndOfSimulation:
                ++nEnd;
                if (t != f) res.fail("end-not-at-final", isig + " clause=4", "EndOfSimulation returned away from the final time" + ctx);
                if (nEnd > 1) res.fail("end-twice", isig + " clause=5", "EndOfSimulation returned twice" + ctx);
                break;
            case Integrator::ReachedEventTrigger: {
                Vec2 w = integ->getEventWindow();
                for (double x : {s, f}) if (x > w[0] && x < w[1]) res.fail("time-inside-window", isig + " clause=6", "a scheduled/final time " + S(x) + " lies strictly inside the event window (" + S(w[0]) + "," + S(w[1]) + "]" + ctx);
                if (rt > w[0] && rt < w[1]) {
                    // Two different situations. If the integrator advanced during this request it localized the
                    // event knowing this report time: the algorithmic guarantee applies. If it did not advance,
                    // the window had been fixed during an earlier request (which returned an interpolated report
                    // at or before tLow) and the caller has now named a report time inside it.
                    if (adv == lastAdv) res.fail("report-inside-window-fixed-earlier", isig + " clause=6", "report time " + S(rt) + " requested after the window (" + S(w[0]) + "," + S(w[1]) + "] had already been localized lies strictly inside it" + ctx);
                    else res.fail("time-inside-window", isig + " clause=6", "the report time " + S(rt) + " lies strictly inside the event window (" + S(w[0]) + "," + S(w[1]) + "]" + ctx);
                }
                if (!(w[0] <= w[1])) res.fail("window-inverted", isig + " clause=6", "event window inverted" + ctx);
                res.count("probe_event_window");
                break; }
            default: break;
            }
            if (st != Integrator::EndOfSimulation && integ->isSimulationOver() && !handlerTerminated) res.fail("over-early", isig + " clause=5", "isSimulationOver() true without EndOfSimulation" + ctx);
            if (res.violation) break;
            // probes
            if (rt == s) res.count("probe_report_eq_scheduled"); if (rt >= f) res.count("probe_report_ge_final"); if (rt == t0) res.count("probe_report_eq_now");
            if (s == t0) res.count("probe_scheduled_eq_now"); if (st == Integrator::ReachedStepLimit) res.count("probe_step_limit_hit");
            if (integ->isStateInterpolated()) res.count("probe_interpolated_return");
            lastT = t; lastAdv = adv;
            // ---- the time stepper's duties
            HandleEventsOptions hopts(integ->getConstraintToleranceInUse());
            auto handlerAction = [&](State& st2, Stage& lowest, bool& term) {
                int ev = eventsHandled++;
                if (ev == hmodAt) { ++firedHmod; Stage g = Stage(std::max(4, std::min(6, hmodStage)));
                    if (g == Stage::Position && st2.getNQ()) st2.updQ()[0] += 0.125; else if (g == Stage::Velocity && st2.getNU()) st2.updU()[0] -= 0.25; else if (st2.getNZ()) st2.updZ()[0] *= 0.5; else if (st2.getNU()) st2.updU()[0] -= 0.25;
                    lowest = std::min(lowest, st2.getNQ() && g == Stage::Position ? Stage(Stage::Position) : (g == Stage::Velocity ? Stage(Stage::Velocity) : Stage(Stage::Dynamics))); }
                if (ev == htermAt) { ++firedHterm; term = true; }
            };
            bool doReinit = false, term = false; Stage lowest = Stage::Report;
            switch (st) {
            case Integrator::ReachedScheduledEvent: lastEventTime = t; handlerAction(integ->updAdvancedState(), lowest, term); doReinit = true; break;
            case Integrator::ReachedEventTrigger: {
                HandleEventsResults results;
                for (auto* h : trig) h->action = [&](State& s2, bool& tt) { handlerAction(s2, lowest, tt); };
                sys.handleEvents(integ->updAdvancedState(), Event::Cause::Triggered, integ->getTriggeredEvents(), hopts, results);
                lowest = std::min(lowest, results.getLowestModifiedStage());
                term = term || results.getExitStatus() == HandleEventsResults::ShouldTerminate;
                doReinit = true; break; }
            case Integrator::TimeHasAdvanced: doReinit = true; break;
            case Integrator::EndOfSimulation: over = true; break;
            default: break;
            }
            if (doReinit) {
                integ->reinitialize(lowest, term);
                // a handler may not change time; our own actions do not
                if (term) { handlerTerminated = true; over = true; if (!integ->isSimulationOver()) res.fail("terminate-ignored", isig + " clause=5", "handler requested termination but isSimulationOver() is false" + ctx); }
                // after a discontinuous change the integrator restarts from the advanced state: time must not have moved
                if (integ->getAdvancedTime() != adv) res.fail("reinitialize-moved-time", isig + " clause=2", "reinitialize changed the advanced time" + ctx);
            }
            if (res.violation) break;
        }
        // (5) after the end stepping is refused
        if (!res.violation && over && !res.inconclusive) {
            if (!integ->isSimulationOver()) res.fail("not-over", isig + " clause=5", "simulation ended but isSimulationOver() is false");
            bool refused = false;
            try { integ->stepTo(integ->getTime() + 0.1, Infinity); } catch (const std::exception&) { refused = true; }
            if (!refused) res.fail("step-after-end", isig + " clause=5", "stepTo accepted after the simulation ended");
            else res.count("probe_step_after_end_refused");
        }
        res.count("fault_eval_throw", ctl.firedThrow); res.count("fault_eval_nan", ctl.firedNaN);
        res.count("fault_handler_modified_state", firedHmod); res.count("fault_handler_terminated", firedHterm);
        res.count("requests", reqIndex + 1);
        res.nontrivial = statuses.size() >= 3 && sawInterp;
        res.key = key.h; res.hash = hash.h;
        return res;
    }
};

int main(int argc, char** argv) { C19 e; return vf::engineMain(argc, argv, e); }
