// C21 — integrators keep constrained states on the manifold.
// Random constrained / quaternion / prescribed-motion multibody models are integrated by every
// integrator under a seeded request schedule (reports far below and above the step size, scheduled
// events, triggered events, handlers that change the state, re-initialization) with evaluation
// faults (throwing, NaN and wildly wrong force evaluations at trial points). Every state the
// integrator returns is checked against the constraint tolerance in use, quaternion normalisation
// and the closed forms of the prescribed motions.
#include "Simbody.h"
#include "isys.h"
using namespace hi;
using vf::Plan; using vf::Op; using vf::Result; using vf::Rng;

struct EvalCtl { long reqEvals = 0, budget = 150000; bool budgetHit = false; long evals = 0, throwAt = -1, nanAt = -1, kickAt = -1, burst = 1; long firedThrow = 0, firedNaN = 0, firedKick = 0; bool armed = false;
    void arm(long t, long n, long k, long b) { evals = 0; throwAt = t; nanAt = n; kickAt = k; burst = std::max(1L, b); armed = true; }
    void disarm() { armed = false; throwAt = nanAt = kickAt = -1; } };

class KForce : public Force::Custom::Implementation {
public:
    KForce(int nb, uint64_t seed, EvalCtl* c) : nb(nb), seed(seed), ctl(c) {}
    void calcForce(const State& s, Vector_<SpatialVec>& bf, Vector_<Vec3>&, Vector& mf) const override {
        double scale = 1; bool nan = false;
        if (ctl && ++ctl->reqEvals > ctl->budget) { ctl->budgetHit = true; throw std::runtime_error("evaluation budget of this request exhausted"); }
        if (ctl && ctl->armed) { long e = ++ctl->evals;
            if (ctl->throwAt > 0 && e >= ctl->throwAt && e < ctl->throwAt + ctl->burst) { ctl->firedThrow++; throw std::runtime_error("injected force-evaluation failure"); }
            if (ctl->nanAt > 0 && e >= ctl->nanAt && e < ctl->nanAt + ctl->burst) { ctl->firedNaN++; nan = true; }
            if (ctl->kickAt > 0 && e >= ctl->kickAt && e < ctl->kickAt + ctl->burst) { ctl->firedKick++; scale = 3e3; } }
        Rng r(seed); const Vector& u = s.getU(); const double t = s.getTime();
        if (getenv("VERIF_DEBUG")) { static long n = 0; if ((++n % 20000) == 0) std::fprintf(stderr, "eval %ld t=%.17g\n", n, t); }
        for (int k = 0; k < 3 && mf.size(); ++k) { int i = (int)r.below(mf.size()); double a = r.uni(-2, 2), w = r.uni(0.5, 4); mf[i] += scale * (a * std::sin(w * t) - 0.3 * u[i]); }
        int b = 1 + (int)r.below(nb); double a = r.uni(-3, 3); bf[b] += scale * SpatialVec(Vec3(0.2 * a, -0.1 * a, 0.3 * a), Vec3(a * std::cos(t), 0.5 * a, -a));
        if (nan && mf.size()) mf[0] = NaN;
    }
    Real calcPotentialEnergy(const State&) const override { return 0; }
    int nb; uint64_t seed; EvalCtl* ctl;
};

struct Pres { int body; int level; int kind; double a, w, phi; };   // kind 0 sinusoid, 1 steady, 2 lock

struct C21 : vf::Engine {
    const char* property() const override { return "C21"; }

    Plan generate(uint64_t seed, const std::string& tier, const std::string& mode) override {
        Rng r(seed); Plan p; p.property = "C21"; p.seed = seed; bool faults = mode == "faults";
        int integ = (int)r.below(NINTEG);
        p.setcfg("integ", integ);
        int nb = r.range(2, 5); std::string model;
        for (int b = 0; b < nb; ++b) { int t = (int)r.below(10); char c = t < 4 ? 'P' : t < 5 ? 'S' : t < 6 ? 'U' : t < 9 ? 'B' : 'F'; model += c; model += std::to_string(r.below(b + 1)); model += ' '; }
        p.setcfg("model", model); p.setcfg("model_seed", (uint64_t)(r.next() >> 8));
        p.setcfg("euler", r.chance(0.2) ? 1 : 0);
        p.setcfgr("perturb_q", r.chance(0.5) ? 0.0 : r.pick(std::vector<double>{1e-4, 3e-3, 1e-2}));   // the state handed to initialize() is this far off the position manifold (and its quaternions un-normalized)
        int nc = r.chance(0.15) ? 0 : r.range(1, 3);
        for (int c = 0; c < nc; ++c) { static const char* K[] = {"rod", "rod", "ball", "ball", "pip", "cspeed", "ccoord", "noslip", "weld", "cangle"}; p.ops.push_back(vf::mkop("cons").set("kind", K[r.below(10)]).set("seed", (long)(r.next() >> 16))); }
        int nm = r.chance(0.5) ? 0 : r.range(1, 2);
        for (int c = 0; c < nm; ++c) p.ops.push_back(vf::mkop("pres").set("kind", (int)r.below(3)).set("level", (int)r.below(3)).set("seed", (long)(r.next() >> 16)));
        bool lowOrder = (integ == 0 || integ == 1 || integ == 5 || integ == 7);
        p.setcfgr("accuracy", std::pow(10.0, -r.range(2, lowOrder ? 3 : 6)));
        p.setcfgr("constol", r.chance(0.5) ? 0.0 : std::pow(10.0, -r.range(3, 7)));
        bool fixed = (r.chance(0.2) && integ != 8) || integ == 6;
        p.setcfgr("fixed", fixed ? r.pick(std::vector<double>{0.0005, 0.001, 0.002, 0.004}) : 0.0);
        p.setcfgr("maxstep", (!fixed && r.chance(0.3)) ? r.pick(std::vector<double>{0.01, 0.03, 0.1}) : 0.0);
        double T = r.uni(0.3, 2.0); p.setcfgr("final", r.chance(0.7) ? T : -1.0);
        // tri-state options: -1 = the setter is never called (the documented default applies), 0 = off, 1 = on
        auto tri = [&](double pUnset, double pOn) { double u = r.uni(); return u < pUnset ? -1 : u < pUnset + pOn ? 1 : 0; };
        p.setcfg("every", tri(0.4, 0.25)); p.setcfg("interp", tri(0.45, 0.4));
        p.setcfg("projevery", tri(0.4, 0.3)); p.setcfg("projinterp", tri(0.4, 0.35)); p.setcfg("infnorm", tri(0.4, 0.3)); p.setcfg("fullnewton", tri(0.6, 0.1));
        { int ns = r.chance(0.4) ? 0 : r.range(1, 4); std::string s; std::vector<double> ts; for (int i = 0; i < ns; ++i) ts.push_back(r.chance(0.3) ? std::round(r.uni(0, T) * 8) / 8 : r.uni(0, T)); std::sort(ts.begin(), ts.end());
          for (double t : ts) { char b[40]; std::snprintf(b, sizeof b, "%.17g ", t); s += b; } p.setcfg("sched", s); }
        int nw = r.chance(0.5) ? 0 : r.range(1, 2);
        for (int i = 0; i < nw; ++i) { char b[200]; std::snprintf(b, sizeof b, "%.17g %.17g %.17g", r.uni(2, 9), r.uni(-3, 3), r.uni(-0.8, 0.8)); p.setcfg("wit" + std::to_string(i), b); }
        int nreq = r.range(3, tier == "thorough" ? 40 : 20);
        for (int k = 0; k < nreq; ++k) {
            if (k > 1 && r.chance(0.05) && integ != 8) { p.ops.push_back(vf::mkop("reinit").set("how", (int)r.below(2))); continue; }
            Op o = vf::mkop("req"); int m = (int)r.below(100);
            if (m < 40) o.set("mode", "delta").setr("d", r.chance(0.6) ? r.uni(0.0005, 0.02) : r.uni(0.02, 0.5));
            else if (m < 55) o.set("mode", "grid").setr("d", r.pick(std::vector<double>{0.002, 0.01, 0.05, 0.125}));
            else if (m < 62) o.set("mode", "now"); else if (m < 68) o.set("mode", "tiny"); else if (m < 76) o.set("mode", "eqsched");
            else if (m < 84) o.set("mode", "eqfinal"); else if (m < 92) o.set("mode", "inf"); else o.set("mode", "delta").setr("d", r.uni(0.2, 1.0));
            p.ops.push_back(o);
        }
        if (faults) { int nf = r.range(1, 4);
            for (int i = 0; i < nf; ++i) { int k = (int)r.below(100); const char* kind = k < 35 ? "throw" : k < 55 ? "nan" : k < 80 ? "kick" : "hmod";
                if (std::string(kind) == "hmod") p.faults.push_back(vf::mkop("hmod").set("ev", (int)r.below(5)).setr("f", r.pick(std::vector<double>{0.5, -0.5, 2.0, 0.0})));
                else p.faults.push_back(vf::mkop(kind).set("req", (int)r.below(nreq)).set("nth", r.range(1, 14)).set("burst", r.chance(0.7) ? 1 : r.range(2, 5))); } }
        return p;
    }

    struct Model {
        MultibodySystem sys; SimbodyMatterSubsystem matter; GeneralForceSubsystem forces; Force::Gravity gravity;
        std::vector<MobilizedBody> mob; std::vector<char> type; std::vector<Pres> pres; std::vector<Motion> motions; std::vector<std::string> consKinds; EvalCtl ctl; HLog hlog; std::vector<TrigHandler*> trig;
        Model() : matter(sys), forces(sys), gravity(forces, matter, -YAxis, 9.8) {}
    };

    // set the seeded initial configuration (same values every time it is called)
    static void setInitial(Model& M, State& s, uint64_t mseed, bool withU) {
        Rng r(mseed * 31 + 17);
        for (size_t b = 1; b < M.mob.size(); ++b) { MobilizedBody& m = M.mob[b];
            switch (M.type[b]) {
            case 'B': m.setQToFitRotation(s, Rotation(r.uni(-1.5, 1.5), UnitVec3(Vec3(r.uni(-1, 1), r.uni(-1, 1), r.uni(0.1, 1))))); break;
            case 'F': m.setQToFitTransform(s, Transform(Rotation(r.uni(-1.5, 1.5), UnitVec3(Vec3(r.uni(-1, 1), r.uni(0.1, 1), r.uni(-1, 1)))), Vec3(r.uni(-0.5, 0.5), r.uni(-0.5, 0.5), r.uni(-0.5, 0.5)))); break;
            default: for (int i = 0; i < m.getNumQ(s); ++i) m.setOneQ(s, i, r.uni(-1, 1)); }
        }
        Rng ru(mseed * 77 + 5);
        if (withU) { Vector u(s.getNU()); for (int i = 0; i < u.size(); ++i) u[i] = ru.uni(-1.5, 1.5); s.updU() = u; }
    }

    // returns false when the model cannot be used (inconclusive)
    bool build(Model& M, const Plan& p, State& init, std::string& why) {
        const uint64_t mseed = std::strtoull(p.cfg("model_seed", "1").c_str(), 0, 10); Rng mr(mseed);
        M.forces.setNumberOfThreads(1);
        M.mob.push_back(M.matter.updGround()); M.type.push_back('G');
        std::istringstream is(p.cfg("model", "P0 B1")); std::string tok;
        while (is >> tok) {
            char t = tok[0]; int par = std::atoi(tok.c_str() + 1) % (int)M.mob.size();
            Body::Rigid body(MassProperties(mr.uni(0.5, 3), Vec3(mr.uni(-0.2, 0.2), mr.uni(-0.2, 0.2), mr.uni(-0.2, 0.2)), Inertia(mr.uni(1, 2), mr.uni(1, 2), mr.uni(1, 2))));
            Transform Xp(Rotation(mr.uni(-1, 1), UnitVec3(Vec3(1, 2, 3))), Vec3(mr.uni(-1, 1), mr.uni(-1, 1), mr.uni(-1, 1))), Xb(Vec3(mr.uni(-0.5, 0.5), mr.uni(-0.5, 0.5), mr.uni(-0.5, 0.5)));
            MobilizedBody& P = M.mob[par];
            switch (t) {
            case 'S': M.mob.push_back(MobilizedBody::Slider(P, Xp, body, Xb)); break;
            case 'U': M.mob.push_back(MobilizedBody::Universal(P, Xp, body, Xb)); break;
            case 'B': M.mob.push_back(MobilizedBody::Ball(P, Xp, body, Xb)); break;
            case 'F': M.mob.push_back(MobilizedBody::Free(P, Xp, body, Xb)); break;
            default:  t = 'P'; M.mob.push_back(MobilizedBody::Pin(P, Xp, body, Xb)); break;
            }
            M.type.push_back(t);
        }
        if (M.mob.size() < 2) { M.mob.push_back(MobilizedBody::Pin(M.mob[0], Transform(), Body::Rigid(MassProperties(1, Vec3(0), Inertia(1))), Transform())); M.type.push_back('P'); }
        const int nb = (int)M.mob.size() - 1;
        for (int b = 1; b <= nb; ++b) if (M.type[b] == 'P' || M.type[b] == 'S') { Force::MobilityLinearSpring(M.forces, M.mob[b], MobilizerQIndex(0), mr.uni(2, 30), mr.uni(-0.5, 0.5)); if (mr.chance(0.5)) Force::MobilityLinearDamper(M.forces, M.mob[b], MobilizerUIndex(0), mr.uni(0.1, 2)); }
        Force::Custom(M.forces, new KForce(nb, mseed ^ 0x5555, &M.ctl));
        // which bodies lie on a path from a constrained body to ground (prescribed motion is kept off those)
        std::vector<int> parentOf(nb + 1, 0); { std::istringstream is2(p.cfg("model", "P0 B1")); int b = 1; while (is2 >> tok && b <= nb) { parentOf[b] = std::atoi(tok.c_str() + 1) % b; ++b; } }
        std::vector<char> inLoop(nb + 1, 0);
        struct CPlan { std::string kind; int a, b; uint64_t seed; }; std::vector<CPlan> cplans;
        // two-body constraints first; a single-mobilizer constraint (constant speed / coordinate) is only put on a
        // mobilizer outside every loop and not already so constrained, else the set can be infeasible by construction
        for (int passc = 0; passc < 2; ++passc)
        for (auto& op : p.ops) if (op.kind == "cons") { Rng cr((uint64_t)op.num("seed", 1) * 31 + 7); CPlan c; c.kind = op.str("kind", "rod"); c.a = 1 + (int)cr.below(nb); c.b = (int)cr.below(nb + 1); c.seed = (uint64_t)op.num("seed", 1);
            bool single = c.kind == "cspeed" || c.kind == "ccoord";
            if (single != (passc == 1)) continue;
            if (!single && c.a == c.b) continue;
            if (single && M.type[c.a] != 'P' && M.type[c.a] != 'S' && M.type[c.a] != 'U') continue;
            if (single && inLoop[c.a]) continue;
            if (single) inLoop[c.a] = 1; else { for (int x = c.a; x; x = parentOf[x]) inLoop[x] = 1; for (int x = c.b; x; x = parentOf[x]) inLoop[x] = 1; }
            cplans.push_back(c); }
        // prescribed motions and locks, only on bodies outside every loop
        for (auto& op : p.ops) if (op.kind == "pres") { Rng cr((uint64_t)op.num("seed", 1) * 131 + 3); int b = 1 + (int)cr.below(nb); if (inLoop[b]) continue;
            bool dup = false; for (auto& q : M.pres) if (q.body == b) dup = true; if (dup) continue;
            Pres P; P.body = b; P.kind = (int)op.num("kind", 0) % 3; P.level = (int)op.num("level", 0) % 3; P.a = cr.uni(0.2, 1); P.w = cr.uni(0.5, 4); P.phi = cr.uni(0, 3);
            bool scalar = M.type[b] == 'P' || M.type[b] == 'S';
            if (P.kind == 0) { if (!scalar) continue; M.motions.push_back(Motion::Sinusoid(M.mob[b], P.level == 0 ? Motion::Position : P.level == 1 ? Motion::Velocity : Motion::Acceleration, P.a, P.w, P.phi)); }
            else if (P.kind == 1) { if (!scalar) continue; P.level = 1; M.motions.push_back(Motion::Steady(M.mob[b], P.a)); }
            M.pres.push_back(P); }
        // time witnesses with handlers (events give before-states and handler changes)
        for (int i = 0; i < 4; ++i) if (p.hascfg("wit" + std::to_string(i))) { std::istringstream ws(p.cfg("wit" + std::to_string(i))); double w = 3, phi = 0, c = 0; ws >> w >> phi >> c;
            TrigHandler* h = new TrigHandler(i, Stage::Time, [w, phi, c](const State& s) { return std::sin(w * s.getTime() + phi) - c; }, &M.hlog, true, true, 0); M.sys.addEventHandler(h); M.trig.push_back(h); }
        // phase 1: the tree alone, to find a configuration the constraints can be matched to
        M.sys.realizeTopology(); State s0 = M.sys.getDefaultState();
        const bool euler = p.cfgn("euler", 0) != 0; M.matter.setUseEulerAngles(s0, euler); M.sys.realizeModel(s0);
        setInitial(M, s0, mseed, false); s0.setTime(0);
        M.sys.realize(s0, Stage::Time); M.sys.prescribeQ(s0); M.sys.realize(s0, Stage::Position);
        int ndof = s0.getNU(), neq = 0; for (auto& q : M.pres) ndof -= M.mob[q.body].getNumU(s0);
        for (auto& c : cplans) { Rng cr(c.seed * 977 + 1); MobilizedBody& A = M.mob[c.a]; MobilizedBody& B = M.mob[c.b];
            auto rv = [&](double s) { return Vec3(cr.uni(-s, s), cr.uni(-s, s), cr.uni(-s, s)); };
            int eq = c.kind == "ball" ? 3 : c.kind == "weld" ? 6 : 1; if (neq + eq > ndof - 1) continue;
            if (c.kind == "rod") { Vec3 pa = rv(0.4), pb = rv(0.4); Real d = (A.findStationLocationInGround(s0, pa) - B.findStationLocationInGround(s0, pb)).norm(); if (d < 0.05) continue; Constraint::Rod(A, pa, B, pb, d); }
            else if (c.kind == "ball") { Vec3 pa = rv(0.4); Constraint::Ball(A, pa, B, B.findStationAtGroundPoint(s0, A.findStationLocationInGround(s0, pa))); }
            else if (c.kind == "pip") { UnitVec3 n(rv(1) + Vec3(0, 0, 1.5)); Vec3 pb = rv(0.4); Vec3 pA = A.findStationAtGroundPoint(s0, B.findStationLocationInGround(s0, pb)); Constraint::PointInPlane(A, n, dot(pA, n), B, pb); }
            else if (c.kind == "cspeed") Constraint::ConstantSpeed(A, MobilizerUIndex(0), cr.uni(-1, 1));
            else if (c.kind == "ccoord") Constraint::ConstantCoordinate(A, MobilizerQIndex(0), A.getOneQ(s0, 0));
            else if (c.kind == "noslip") { Vec3 pG = A.findStationLocationInGround(s0, rv(0.3)); Constraint::NoSlip1D(M.mob[0], pG, UnitVec3(rv(1) + Vec3(1.5, 0, 0)), A, B); }
            else if (c.kind == "weld") { Transform X_AF(Rotation(cr.uni(-1, 1), UnitVec3(Vec3(1, 1, 0))), rv(0.3)); Transform X_GF = A.getBodyTransform(s0) * X_AF; Constraint::Weld(A, X_AF, B, ~B.getBodyTransform(s0) * X_GF); }
            else if (c.kind == "cangle") { UnitVec3 ua(rv(1) + Vec3(0, 1.5, 0)), ub(rv(1) + Vec3(0, 0, 1.5)); Real ang = std::acos(std::max(-1.0, std::min(1.0, (double)dot(A.expressVectorInGroundFrame(s0, ua), B.expressVectorInGroundFrame(s0, ub))))); if (ang < 0.3 || ang > 2.8) continue; Constraint::ConstantAngle(A, ua, B, ub, ang); }
            else continue;
            neq += eq; M.consKinds.push_back(c.kind);
        }
        // phase 2: the full system
        M.sys.realizeTopology(); init = M.sys.getDefaultState();
        M.matter.setUseEulerAngles(init, euler); M.sys.realizeModel(init);
        setInitial(M, init, mseed, true); init.setTime(0);
        { const double pq = p.cfgr("perturb_q", 0); if (pq > 0) { Rng pr(mseed ^ 0xabcdef); Vector q = init.getQ(); for (int i = 0; i < q.size(); ++i) q[i] += pr.uni(-pq, pq); init.updQ() = q; } }
        for (auto& q : M.pres) if (q.kind == 2) { MobilizedBody& m = M.mob[q.body]; m.lock(init, q.level == 0 ? Motion::Position : q.level == 1 ? Motion::Velocity : Motion::Acceleration); }
        (void)why; return true;
    }

    Result execute(const Plan& p) override {
        Result res; vf::Hash key, hash; Model M; State init; std::string why;
        auto S = [](double v) { char b[40]; std::snprintf(b, sizeof b, "%.17g", v); return std::string(b); };
        try { if (!build(M, p, init, why)) { res.inconclusive = true; res.detail = why; return res; } }
        catch (const std::exception& e) { res.inconclusive = true; res.detail = std::string("model construction failed: ") + e.what(); return res; }
        const int nb = (int)M.mob.size() - 1;
        int ik = (int)(p.cfgn("integ", 3) % NINTEG); if (ik < 0) ik = 0;
        double fixed = p.cfgr("fixed", 0);
        std::unique_ptr<Integrator> integ(makeIntegrator(ik, M.sys, fixed));
        integ->setAccuracy(std::min(0.1, std::max(1e-8, p.cfgr("accuracy", 1e-3))));
        if (p.cfgr("constol", 0) > 0) integ->setConstraintTolerance(p.cfgr("constol", 0));
        if (fixed > 0 && ik != 6) integ->setFixedStepSize(fixed);
        if (p.cfgr("maxstep", 0) > 0 && fixed <= 0) integ->setMaximumStepSize(p.cfgr("maxstep", 0));
        const double f = p.cfgr("final", -1) >= 0 ? p.cfgr("final", -1) : Infinity; if (f < Infinity) integ->setFinalTime(f);
        // -1: leave the option unset, so that the integrator's documented default is what is exercised
        if (p.cfgn("every", -1) >= 0) integ->setReturnEveryInternalStep(p.cfgn("every", 0) != 0);
        if (p.cfgn("interp", -1) >= 0) integ->setAllowInterpolation(p.cfgn("interp", 1) != 0);
        const bool projInterp = p.cfgn("projinterp", -1) != 0 /* default: project */, infNorm = p.cfgn("infnorm", -1) > 0 /* default: RMS */;
        if (p.cfgn("projevery", -1) >= 0) integ->setProjectEveryStep(p.cfgn("projevery", 0) != 0);
        if (p.cfgn("projinterp", -1) >= 0) integ->setProjectInterpolatedStates(projInterp);
        if (p.cfgn("infnorm", -1) >= 0) integ->setUseInfinityNorm(infNorm);
        if (p.cfgn("fullnewton", -1) >= 0) integ->setForceFullNewton(p.cfgn("fullnewton", 0) != 0);
        std::vector<double> timeline; { std::istringstream is(p.cfg("sched", "")); double t; while (is >> t) if (t >= 0) timeline.push_back(t); std::sort(timeline.begin(), timeline.end()); }
        const std::string isig = std::string("integrator=") + IntegNames[ik];
        res.count(std::string("integ_") + IntegNames[ik]);
        const bool errorControlled = !(ik == 6) && fixed <= 0;   // NaN faults only where a non-finite error estimate is rejected

        long checked = 0, checkedInterp = 0, checkedBefore = 0, exemptInterp = 0, nanExcused = 0; bool nanFired = false, blewUp = false;
        // ---------------- the manifold monitor
        auto monitor = [&](const State& st, const std::string& what, bool interpolated, const std::string& ctx) {
            const double tol = integ->getConstraintToleranceInUse();
            const double t = st.getTime();
            // prescribed motion applies to every returned state
            for (auto& q : M.pres) { MobilizedBody& m = M.mob[q.body];
                if (q.kind == 2) {
                    if (q.level == 0) { Vector lv = m.getLockValueAsVector(st), qq = m.getQAsVector(st), uu = m.getUAsVector(st); for (int i = 0; i < qq.size(); ++i) if (qq[i] != lv[i]) res.fail("lock-not-honoured", isig + " what=" + what + " level=position", "locked coordinate " + S(qq[i]) + " differs from lock value " + S(lv[i]) + ctx); for (int i = 0; i < uu.size(); ++i) if (uu[i] != 0) res.fail("lock-not-honoured", isig + " what=" + what + " level=position", "speed of a position-locked mobilizer is " + S(uu[i]) + ctx); }
                    else if (q.level == 1) { Vector lv = m.getLockValueAsVector(st), uu = m.getUAsVector(st); for (int i = 0; i < uu.size(); ++i) if (uu[i] != lv[i]) res.fail("lock-not-honoured", isig + " what=" + what + " level=velocity", "locked speed " + S(uu[i]) + " differs from lock value " + S(lv[i]) + ctx); }
                } else {
                    const double qv = m.getOneQ(st, 0), uv = m.getOneU(st, 0); double wantQ = NaN, wantU = NaN;
                    if (q.kind == 0 && q.level == 0) { wantQ = q.a * std::sin(q.w * t + q.phi); wantU = q.a * q.w * std::cos(q.w * t + q.phi); }
                    else if (q.kind == 0 && q.level == 1) wantU = q.a * std::sin(q.w * t + q.phi);
                    else if (q.kind == 1) wantU = q.a;
                    if (!std::isnan(wantQ) && !(std::abs(qv - wantQ) <= 1e-12 * (1 + std::abs(wantQ)))) res.fail("prescribed-motion-not-honoured", isig + " what=" + what + " level=position", "prescribed coordinate is " + S(qv) + " but the motion's value at t=" + S(t) + " is " + S(wantQ) + ctx);
                    if (!std::isnan(wantU) && !(std::abs(uv - wantU) <= 1e-12 * (1 + std::abs(wantU)))) res.fail("prescribed-motion-not-honoured", isig + " what=" + what + " level=velocity", "prescribed speed is " + S(uv) + " but the motion's value at t=" + S(t) + " is " + S(wantU) + ctx);
                }
            }
            if (interpolated && !projInterp) { ++exemptInterp; return; }     // exempt by the statement
            ++checked; if (interpolated) ++checkedInterp;
            for (int pass = 0; pass < 2; ++pass) {
                State copy; const State* sp = &st; if (pass == 1) { copy = st; sp = &copy; }
                const State& s = *sp; M.sys.realize(s, Stage::Velocity);
                const int nquat = M.matter.getNumQuaternionsInUse(s); const Vector& qe = s.getQErr(); const Vector& ue = s.getUErr(); const int mh = qe.size() - nquat;
                bool finite = true; for (int i = 0; i < s.getNY(); ++i) if (!std::isfinite(s.getY()[i])) finite = false;
                // a trajectory that overflowed (unstable fixed step, injected NaN or outlier) cannot be judged against a tolerance:
                // the run is abandoned as inconclusive, it is never counted as a pass or as a violation of this property
                if (!finite) { ++nanExcused; if (!res.violation) { res.inconclusive = true; res.detail = "returned state has non-finite entries (trajectory overflowed); run abandoned" + ctx; } blewUp = true; return; }
                const Vector& wq = s.getQErrWeights(); const Vector& wu = s.getUErrWeights();
                double pn = 0, qn = 0, un = 0;
                if (infNorm) { for (int i = 0; i < mh; ++i) pn = std::max(pn, std::abs(qe[i] * wq[i])); for (int i = mh; i < qe.size(); ++i) qn = std::max(qn, std::abs(qe[i])); for (int i = 0; i < ue.size(); ++i) un = std::max(un, std::abs(ue[i] * wu[i])); }
                else { for (int i = 0; i < mh; ++i) pn += square(qe[i] * wq[i]); if (mh) pn = std::sqrt(pn / mh); for (int i = mh; i < qe.size(); ++i) qn += square(qe[i]); if (nquat) qn = std::sqrt(qn / nquat); for (int i = 0; i < ue.size(); ++i) un += square(ue[i] * wu[i]); if (ue.size()) un = std::sqrt(un / ue.size()); }
                if (getenv("VERIF_DEBUG")) std::fprintf(stderr, "monitor %s pass=%d t=%.17g stage=%d pn=%g qn=%g un=%g tol=%g\n", what.c_str(), pass, t, (int)st.getSystemStage(), pn, qn, un, tol);
                const double lim = tol * (1 + 1e-9); const char* src = pass ? " (recomputed on a copy)" : "";
                auto ex = [&](double n) { return std::string(n <= 100 * tol ? " excess<=100x" : " excess>100x"); };
                if (!(pn <= lim)) res.fail("position-constraint-violated", isig + " what=" + what + ex(pn), "position constraint error norm " + S(pn) + " exceeds the tolerance in use " + S(tol) + src + ctx);
                if (!(qn <= lim)) res.fail("quaternion-not-normalized", isig + " what=" + what + ex(qn), "quaternion normalisation error norm " + S(qn) + " exceeds the tolerance in use " + S(tol) + src + ctx);
                if (!(un <= lim)) res.fail("velocity-constraint-violated", isig + " what=" + what + ex(un), "velocity constraint error norm " + S(un) + " exceeds the tolerance in use " + S(tol) + src + ctx);
                // quaternions, directly from q
                if (nquat && pass == 0) for (int b = 1; b <= nb; ++b) if ((M.type[b] == 'B' || M.type[b] == 'F') && !M.matter.getUseEulerAngles(s)) { Vector qq = M.mob[b].getQAsVector(s); double n = std::sqrt(qq[0] * qq[0] + qq[1] * qq[1] + qq[2] * qq[2] + qq[3] * qq[3]);
                    if (!(std::abs(n - 1) <= lim * (infNorm ? 1.0 : std::sqrt((double)nquat)) + 4e-16)) res.fail("quaternion-not-normalized", isig + " what=" + what + ex(std::abs(n - 1)), "|quaternion| - 1 = " + S(n - 1) + " for body " + std::to_string(b) + " with tolerance " + S(tol) + ctx); }
                if (res.violation && !getenv("VERIF_DEBUG")) return;
            }
        };

        try { integ->initialize(init); }
        catch (const std::exception& e) { res.inconclusive = true; res.detail = std::string("initialize failed: ") + e.what(); res.count("incon_initialize"); return res; }
        monitor(integ->getState(), "initial", false, " [after initialize]");
        // handler faults
        int hmodAt = -1; double hmodF = 0.5; for (auto& fl : p.faults) if (fl.kind == "hmod") { hmodAt = (int)fl.num("ev", 0); hmodF = fl.real("f", 0.5); }
        int eventsHandled = 0; long firedHmod = 0; bool over = false; double lastEventTime = -Infinity, lastAdv = integ->getAdvancedTime();
        int reqIndex = -1; std::set<int> statuses; double prevRetT = integ->getTime(), prevRetAdv = integ->getAdvancedTime();
        for (auto& op : p.ops) {
            if (res.violation) break;
            if (op.kind == "reinit") {
                State again = op.num("how", 0) ? State(integ->getAdvancedState()) : State(init);
                try { integ->initialize(again); } catch (const std::exception& e) { res.inconclusive = true; res.detail = std::string("re-initialize failed: ") + e.what(); break; }
                monitor(integ->getState(), "initial", false, " [after re-initialize]"); over = false; lastEventTime = -Infinity; lastAdv = integ->getAdvancedTime(); prevRetT = integ->getTime(); prevRetAdv = lastAdv; res.count("probe_reinitialized"); key.mix(99); continue;
            }
            if (op.kind != "req") continue;
            ++reqIndex; if (over) continue;
            const double t0 = integ->getTime();
            double s = Infinity; for (double t : timeline) if (t > t0 || (t == t0 && lastEventTime != t0)) { s = t; break; }
            double rt; std::string m = op.str("mode", "delta");
            if (m == "now") rt = t0; else if (m == "tiny") rt = t0 + 1e-9; else if (m == "eqsched") rt = (s < Infinity ? s : t0 + 0.1);
            else if (m == "eqfinal") rt = (f < Infinity ? f : t0 + 0.2); else if (m == "inf") rt = (f < Infinity || s < Infinity) ? Infinity : t0 + 0.5;
            else if (m == "grid") { double g = std::max(1e-3, op.real("d", 0.25)); rt = (std::floor(t0 / g) + 1) * g; }
            else rt = t0 + std::abs(op.real("d", 0.1));
            if (rt < t0) rt = t0;
            M.ctl.disarm(); M.ctl.reqEvals = 0;
            for (auto& fl : p.faults) if ((fl.kind == "throw" || fl.kind == "kick" || (fl.kind == "nan" && errorControlled)) && fl.num("req", 0) == reqIndex)
                M.ctl.arm(fl.kind == "throw" ? std::max(1L, fl.num("nth", 1)) : -1, fl.kind == "nan" ? std::max(1L, fl.num("nth", 1)) : -1, fl.kind == "kick" ? std::max(1L, fl.num("nth", 1)) : -1, fl.num("burst", 1));
            long firedBefore = M.ctl.firedThrow + M.ctl.firedNaN + M.ctl.firedKick;
            Integrator::SuccessfulStepStatus st;
            try { st = integ->stepTo(rt, s); }
            catch (const std::exception& e) {
                bool faultNow = (M.ctl.firedThrow + M.ctl.firedNaN + M.ctl.firedKick) > firedBefore || M.ctl.firedNaN > 0 || M.ctl.firedKick > 0 || firedHmod > 0;
                M.ctl.disarm();
                if (M.ctl.budgetHit) { res.inconclusive = true; res.detail = "a request needed more than 150000 force evaluations (step size collapsed near a singular configuration); run abandoned"; res.count("incon_budget"); break; }
                if (faultNow) { res.count("failed_legitimately"); break; }
                res.inconclusive = true; res.detail = std::string("stepTo threw without an injected fault: ") + e.what(); res.count("incon_stepfailed"); break;
            }
            if ((M.ctl.firedThrow + M.ctl.firedNaN + M.ctl.firedKick) > firedBefore) res.count("probe_return_after_eval_fault");
            if (M.ctl.firedNaN) nanFired = true;
            M.ctl.disarm();
            const double t = integ->getTime(), adv = integ->getAdvancedTime(); const bool interp = integ->isStateInterpolated();
            statuses.insert((int)st); key.mix((uint64_t)st * 4 + (interp ? 1 : 0)); hash.mix((uint64_t)st); hash.mixd(t); hash.mixd(adv);
            res.count(std::string("status_") + Integrator::getSuccessfulStepStatusString(st).c_str()); res.simtime += std::max(0.0, adv - lastAdv); lastAdv = adv;
            std::string ctx = " [request " + std::to_string(reqIndex) + ": stepTo r=" + S(rt) + " s=" + S(s) + " -> " + Integrator::getSuccessfulStepStatusString(st).c_str() + " t=" + S(t) + " tAdv=" + S(adv) + (interp ? " interpolated" : "") + "]";
            const char* what = st == Integrator::ReachedEventTrigger ? "event-before-state" : interp ? "interpolated-report" : st == Integrator::StartOfContinuousInterval ? "start-of-interval" : "step-state";
            // cross-check (counted, never a violation of THIS property): the step/report/final-time contract of C19 on these constrained models
            { const double bound = std::min(rt, std::min(s, f)); bool bad = false;
              if (!(t <= bound)) bad = true; if (t < prevRetT || adv < prevRetAdv || adv < t) bad = true; if (!(adv <= std::min(s, f))) bad = true;
              if (st == Integrator::ReachedReportTime && !(t == rt || (f < rt && t == f))) bad = true; if (st == Integrator::ReachedScheduledEvent && t != s) bad = true; if (st == Integrator::EndOfSimulation && t != f) bad = true;
              if (bad && ik != 8) { res.count("crosscheck_c19_contract_deviation"); if (getenv("VERIF_DEBUG")) std::fprintf(stderr, "C19 contract deviation%s\n", ctx.c_str()); }
              prevRetT = t; prevRetAdv = adv; }
            if (st == Integrator::ReachedEventTrigger) ++checkedBefore;
            monitor(integ->getState(), what, interp, ctx);
            if (res.violation || blewUp) break;
            // the advanced state is what event handlers receive and what the trajectory continues from
            if (interp) monitor(integ->getAdvancedState(), "advanced-state", false, ctx);
            if (res.violation) break;
            // ---- the time stepper's duties
            auto handlerAction = [&](State& s2) {
                int ev = eventsHandled++;
                if (ev == hmodAt) { ++firedHmod; s2.updU() *= hmodF;                       // an impact-like change ...
                    // ... after which the handler must leave the state on the manifold, to the tolerance and in the norm the study uses
                    ProjectOptions po(integ->getConstraintToleranceInUse()); if (infNorm) po.setOption(ProjectOptions::UseInfinityNorm); ProjectResults pr; Vector none;
                    M.sys.realize(s2, Stage::Time); M.sys.prescribeQ(s2); M.sys.realize(s2, Stage::Position); M.sys.projectQ(s2, none, po, pr);
                    M.sys.prescribeU(s2); M.sys.realize(s2, Stage::Velocity); pr.clear(); M.sys.projectU(s2, none, po, pr); }
            };
            bool doReinit = false; Stage lowest = Stage::Report;
            try {
                switch (st) {
                case Integrator::ReachedScheduledEvent: { lastEventTime = t; int before = (int)firedHmod; handlerAction(integ->updAdvancedState()); if ((int)firedHmod > before) lowest = Stage::Velocity; doReinit = true; break; }
                case Integrator::ReachedEventTrigger: {
                    HandleEventsResults results; HandleEventsOptions hopts(integ->getConstraintToleranceInUse());
                    for (auto* h : M.trig) h->action = [&](State& s2, bool&) { handlerAction(s2); };
                    M.sys.handleEvents(integ->updAdvancedState(), Event::Cause::Triggered, integ->getTriggeredEvents(), hopts, results);
                    lowest = std::min(lowest, results.getLowestModifiedStage()); doReinit = true; break; }
                case Integrator::TimeHasAdvanced: doReinit = true; break;
                case Integrator::EndOfSimulation: over = true; break;
                default: break;
                }
            } catch (const std::exception& e) { res.inconclusive = true; res.detail = std::string("handler-side projection failed: ") + e.what(); res.count("incon_handler"); break; }
            if (doReinit) integ->reinitialize(lowest, false);
        }
        res.count("fault_eval_throw", M.ctl.firedThrow); res.count("fault_eval_nan", M.ctl.firedNaN); res.count("fault_eval_kick", M.ctl.firedKick); res.count("fault_handler_changed_velocities", firedHmod);
        res.count("states_checked", checked); res.count("probe_interpolated_state_checked", checkedInterp); res.count("probe_event_before_state_checked", checkedBefore); res.count("interpolated_exempt_projection_off", exemptInterp); res.count("incon_nonfinite_state", nanExcused);
        try { res.count("probe_projection_changed_q", integ->getNumQProjections()); res.count("probe_projection_changed_u", integ->getNumUProjections()); res.count("probe_projection_failures", integ->getNumProjectionFailures());
              res.count("probe_realization_failures", integ->getNumRealizationFailures()); res.count("probe_rejected_steps", integ->getNumStepsAttempted() - integ->getNumStepsTaken()); } catch (...) {}
        res.count("crosscheck_c19_contract_deviation", 0); res.count("models_with_constraints", M.consKinds.empty() ? 0 : 1); res.count("models_with_prescribed", M.pres.empty() ? 0 : 1);
        for (auto& k : M.consKinds) res.count("cons_" + k);
        bool constrained = !M.consKinds.empty() || !M.pres.empty() || M.matter.getNumQuaternionsInUse(integ->getAdvancedState()) > 0;
        res.nontrivial = constrained && checkedInterp >= 1 && checked - checkedInterp >= 2;
        res.key = key.h; res.hash = hash.h;
        return res;
    }
};

int main(int argc, char** argv) { C21 e; return vf::engineMain(argc, argv, e); }
