// C23 — measures compute what their definitions say, along simulated trajectories.
// Measures are built over operands with closed forms (functions of time), so that what makes
// this a simulation target is visible: Extreme, Delay and approximate Differentiate live in
// auto-update discrete variables that may only change when the integrator commits a step;
// trial steps (rejected by error control or by injected evaluation failures), interpolated
// report states, re-initialization and transient evaluation failures must not leak into them.
#include "isys.h"
using namespace hi;
using vf::Plan; using vf::Op; using vf::Result; using vf::Rng;

// ---- closed-form expression tree
struct Node { int type; double a = 0, b = 0, c = 0; int l = -1, r = -1; };   // 0 const a, 1 time, 2 sinusoid a*sin(b t+c), 3 plus, 4 minus, 5 scale a*l, 6 variable a, 7 user measure a*sin(b t+c)
struct Tree {
    std::vector<Node> n;
    double ev(int i, double t, int d) const {          // d-th time derivative (d = -1: antiderivative)
        const Node& x = n[i];
        switch (x.type) {
        case 0: case 6: return d == 0 ? x.a : (d == -1 ? x.a * t : 0.0);
        case 1: return d == 0 ? t : (d == 1 ? 1.0 : (d == -1 ? t * t / 2 : 0.0));
        case 2: case 7: {
            double th = x.b * t + x.c;
            switch (d) { case -1: return -x.a / x.b * std::cos(th); case 0: return x.a * std::sin(th); case 1: return x.a * x.b * std::cos(th);
                         case 2: return -x.a * x.b * x.b * std::sin(th); default: return -x.a * x.b * x.b * x.b * std::cos(th); } }
        case 3: return ev(x.l, t, d) + ev(x.r, t, d);
        case 4: return ev(x.l, t, d) - ev(x.r, t, d);
        default: return x.a * ev(x.l, t, d);
        }
    }
    double bound(int i, int d, double t0, double t1) const { double m = 0; for (int k = 0; k <= 400; ++k) m = std::max(m, std::abs(ev(i, t0 + (t1 - t0) * k / 400.0, d))); return 1.1 * m + 1e-12; }
};

// ---- user-written measure with a transient-failure switch
struct MeasFault { long evals = 0, throwAt = -1, fired = 0; bool armed = false; };
template <class T> class HMeas : public Measure_<T> {
public:
    SimTK_MEASURE_HANDLE_PREAMBLE(HMeas, Measure_<T>);
    SimTK_MEASURE_HANDLE_POSTSCRIPT(HMeas, Measure_<T>);
};
template <class T> class HMeas<T>::Implementation : public Measure_<T>::Implementation {
public:
    Implementation() : Measure_<T>::Implementation(T(0), 1) {}
    Implementation(double a, double b, double c, MeasFault* f) : Measure_<T>::Implementation(T(0), 1), a(a), b(b), c(c), f(f) {}
    Implementation* cloneVirtual() const override { return new Implementation(*this); }
    int getNumTimeDerivativesVirtual() const override { return 0; }
    Stage getDependsOnStageVirtual(int) const override { return Stage::Time; }
    void calcCachedValueVirtual(const State& s, int, T& value) const override {
        if (f && f->armed) { if (++f->evals == f->throwAt) { f->fired++; throw std::runtime_error("injected transient measure failure"); } }
        fill(value, s.getTime());
    }
    // component k of an aggregate: a(1+0.3k) sin(b(1+0.5k) t + c + k)
    static double comp(double a, double b, double c, int k, double t, int d) { double A = a * (1 + 0.3 * k), B = b * (1 + 0.5 * k), th = B * t + c + k; return d == 0 ? A * std::sin(th) : d == 1 ? A * B * std::cos(th) : -A * B * B * std::sin(th); }
    void fill(Real& v, double t) const { v = a * std::sin(b * t + c); }
    void fill(Vec3& v, double t) const { for (int k = 0; k < 3; ++k) v[k] = comp(a, b, c, k, t, 0); }
    double a = 1, b = 1, c = 0; MeasFault* f = nullptr;
};

struct Derived { int kind; int operand; double p1 = 0; int flags = 0; int over = -1; double va = 1, vb = 1, vc = 0; };   // over >= 0: the operand is the Integrate measure D[over] (nested stateful measures); kinds 7 (Vec3 extreme, flags = which) and 8 (Vec3 delay) have their own Vec3 operand va,vb,vc   // 0 integrate(ic=p1), 1 maximum, 2 minimum, 3 maxabs, 4 minabs, 5 delay(p1), 6 differentiate

struct C23 : vf::Engine {
    const char* property() const override { return "C23"; }

    Plan generate(uint64_t seed, const std::string& tier, const std::string& mode) override {
        Rng r(seed); Plan p; p.property = "C23"; p.seed = seed;
        bool faults = mode == "faults";
        int integ = (int)r.below(NINTEG);
        p.setcfg("integ", integ);
        p.setcfg("sys_seed", (uint64_t)(r.next() >> 8));
        p.setcfgr("accuracy", std::pow(10.0, -r.range(2, (integ == 0 || integ == 1 || integ == 5 || integ == 7) ? 3 : 6)));
        bool fixed = (r.chance(0.2) && integ != 8) || integ == 6;
        p.setcfgr("fixed", fixed ? r.pick(std::vector<double>{0.002, 0.005, 0.01, 0.02}) : 0.0);
        p.setcfgr("maxstep", r.pick(std::vector<double>{0.01, 0.02, 0.05}));
        p.setcfgr("final", r.uni(0.8, 3.0));
        p.setcfg("every", r.chance(0.35) ? 1 : (r.chance(0.3) ? 2 : 0));
        p.setcfg("interp", r.chance(0.9) ? (r.chance(0.3) ? 2 : 1) : 0);
        p.setcfgr("t0", r.chance(0.7) ? 0.0 : r.uni(-1, 2));
        // expression nodes (children precede parents)
        int nleaf = r.range(1, 3), nn = nleaf + r.range(0, 3);
        for (int i = 0; i < nn; ++i) {
            Op o = vf::mkop("node");
            if (i < nleaf) { int t = (int)r.below(10);
                if (t < 5) o.set("type", 2).setr("a", r.uni(0.5, 3)).setr("b", r.uni(0.5, 6)).setr("c", r.uni(-3, 3));
                else if (t < 6) o.set("type", 0).setr("a", r.uni(-2, 2));
                else if (t < 7) o.set("type", 1);
                else if (t < 8) o.set("type", 6).setr("a", r.uni(-2, 2));
                else o.set("type", 7).setr("a", r.uni(0.5, 3)).setr("b", r.uni(0.5, 6)).setr("c", r.uni(-3, 3));
            } else { int t = r.range(3, 5); o.set("type", t).set("l", (int)r.below(i)).set("r", (int)r.below(i)); if (t == 5) o.setr("a", r.chance(0.5) ? r.uni(-3, 3) : 2.0); }
            p.ops.push_back(o);
        }
        int nd = r.range(1, 4);
        for (int i = 0; i < nd; ++i) {
            Op o = vf::mkop("meas"); int k = (int)r.below(9);
            o.set("kind", k).set("operand", (int)r.below(nn));
            // a stateful measure over an earlier Integrate measure (nested): the Integrate is then read by a consumer during the step
            if (k >= 1 && k <= 6 && i > 0 && r.chance(0.45)) o.set("over", (int)r.below(i));
            if (k == 7) o.set("flags", (int)r.below(4)).setr("va", r.uni(0.5, 2)).setr("vb", r.uni(0.5, 5)).setr("vc", r.uni(-3, 3));
            if (k == 8) o.setr("p", r.pick(std::vector<double>{0.003, 0.02, 0.05, 0.1, 0.3})).set("flags", (int)r.below(4)).setr("va", r.uni(0.5, 2)).setr("vb", r.uni(0.5, 5)).setr("vc", r.uni(-3, 3));
            if (k == 0) o.setr("p", r.uni(-1, 1));
            if (k == 5) o.setr("p", r.pick(std::vector<double>{0.001, 0.003, 0.02, 0.05, 0.1, 0.3, 0.7})).set("flags", (int)r.below(4));
            if (k == 6) o.set("flags", (int)r.below(2));
            p.ops.push_back(o);
        }
        int nreq = r.range(4, 30);
        for (int k = 0; k < nreq; ++k) {
            if (k > 1 && r.chance(0.08) && integ != 8) { p.ops.push_back(vf::mkop("reinit")); continue; }
            p.ops.push_back(vf::mkop("step").setr("d", r.chance(0.3) ? r.uni(0.0003, 0.01) : (r.chance(0.6) ? r.uni(0.01, 0.2) : r.uni(0.1, 1.0))));
        }
        if (faults) {
            int nf = r.range(1, 3);
            for (int i = 0; i < nf; ++i) {
                if (r.chance(0.5)) p.faults.push_back(vf::mkop("throw").set("req", (int)r.below(nreq)).set("nth", r.range(1, 10)).set("burst", r.range(1, 3)));
                else p.faults.push_back(vf::mkop("measthrow").set("ret", (int)r.below(nreq * 2)).set("nth", 1));
            }
        }
        return p;
    }

    Result execute(const Plan& p) override {
        Result res; vf::Hash key, hash;
        auto S = [](double v) { char b[40]; std::snprintf(b, sizeof b, "%.17g", v); return std::string(b); };
        Rng sr((uint64_t)std::strtoull(p.cfg("sys_seed", "1").c_str(), 0, 10));
        std::vector<Osc> osc{{sr.uni(0.5, 2), sr.uni(1, 8), sr.uni(-3, 3)}}; std::vector<Zdef> zs;
        FaultCtl ctl; MeasFault mf;
        HSystem sys(osc, zs, &ctl);
        Subsystem& sub = sys.updDefaultSubsystem();
        const int ik = (int)(((p.cfgn("integ", 3) % NINTEG) + NINTEG) % NINTEG);
        const std::string isig = std::string("integrator=") + IntegNames[ik];
        // ---- build the tree and the library measures side by side
        Tree tr; std::vector<Measure> M; std::vector<Measure::Variable> vars; std::vector<int> varNode;
        for (auto& op : p.ops) {
            if (op.kind != "node") continue;
            Node x; x.type = (int)op.num("type", 2); x.a = op.real("a", 1); x.b = op.real("b", 1); x.c = op.real("c", 0);
            int idx = (int)tr.n.size();
            if (x.type >= 3 && x.type <= 5 && idx == 0) x.type = 1;
            if (x.type == 2 || x.type == 7) { if (std::abs(x.b) < 0.2) x.b = 0.5; }
            if (x.type >= 3 && x.type <= 5) { x.l = (int)(op.num("l", 0) % idx); x.r = (int)(op.num("r", 0) % idx); }
            switch (x.type) {
            case 0: M.push_back(Measure::Constant(sub, x.a)); break;
            case 1: M.push_back(Measure::Time(sub)); break;
            case 2: M.push_back(Measure::Sinusoid(sub, x.a, x.b, x.c)); break;
            case 3: M.push_back(Measure::Plus(sub, M[x.l], M[x.r])); break;
            case 4: M.push_back(Measure::Minus(sub, M[x.l], M[x.r])); break;
            case 5: M.push_back(Measure::Scale(sub, x.a, M[x.l])); break;
            case 6: { Measure::Variable v(sub, Stage::Position, 0.5); vars.push_back(v); varNode.push_back(idx); M.push_back(v); break; }
            default: { x.type = 7; HMeas<Real> hm(sub); hm.updImpl().a = x.a; hm.updImpl().b = x.b; hm.updImpl().c = x.c; hm.updImpl().f = &mf; M.push_back(hm); break; }
            }
            tr.n.push_back(x);
        }
        if (tr.n.empty()) { Node x; x.type = 1; tr.n.push_back(x); M.push_back(Measure::Time(sub)); }
        std::vector<Derived> D; std::vector<Measure> DM; std::vector<Measure_<Vec3>> VM;   // VM[i] is set for the Vec3 kinds (7, 8); DM[i] is then a placeholder
        for (auto& op : p.ops) {
            if (op.kind != "meas") continue;
            Derived d; d.kind = (int)(op.num("kind", 1) % 9); d.operand = (int)(op.num("operand", 0) % tr.n.size()); d.p1 = op.real("p", 0.1); d.flags = (int)op.num("flags", 0);
            d.va = op.real("va", 1); d.vb = std::max(0.3, std::abs(op.real("vb", 1))); d.vc = op.real("vc", 0);
            if (op.has("over") && d.kind >= 1 && d.kind <= 6 && !D.empty()) { int ov = (int)(op.num("over", 0) % D.size()); if (D[ov].kind == 0 && D[ov].over < 0) { d.over = ov; d.operand = D[ov].operand; } }
            const Measure& o = d.over >= 0 ? DM[d.over] : M[d.operand];
            if (d.kind >= 7) { HMeas<Vec3> hv(sub); hv.updImpl().a = d.va; hv.updImpl().b = d.vb; hv.updImpl().c = d.vc; hv.updImpl().f = nullptr;
                VM.resize(D.size() + 1);
                if (d.kind == 7) { switch (d.flags % 4) { case 0: VM.back() = Measure_<Vec3>::Maximum(sub, hv); break; case 1: VM.back() = Measure_<Vec3>::Minimum(sub, hv); break; case 2: VM.back() = Measure_<Vec3>::MaxAbs(sub, hv); break; default: VM.back() = Measure_<Vec3>::MinAbs(sub, hv); } }
                else { d.p1 = std::max(1e-3, std::abs(d.p1)); Measure_<Vec3>::Delay dl(sub, hv, d.p1); if (d.flags & 1) dl.setUseLinearInterpolationOnly(true); if (d.flags & 2) dl.setCanUseCurrentValue(true); VM.back() = dl; }
                DM.push_back(Measure::Constant(sub, 0)); D.push_back(d); continue; }
            switch (d.kind) {
            case 0: DM.push_back(Measure::Integrate(sub, o, Measure::Constant(sub, d.p1))); break;
            case 1: DM.push_back(Measure::Maximum(sub, o)); break;
            case 2: DM.push_back(Measure::Minimum(sub, o)); break;
            case 3: DM.push_back(Measure::MaxAbs(sub, o)); break;
            case 4: DM.push_back(Measure::MinAbs(sub, o)); break;
            case 5: { d.p1 = std::max(1e-4, std::abs(d.p1)); Measure::Delay dl(sub, o, d.p1); if (d.flags & 1) dl.setUseLinearInterpolationOnly(true); if (d.flags & 2) dl.setCanUseCurrentValue(true); DM.push_back(dl); break; }
            default: { Measure::Differentiate df(sub, o);
                // forcing the approximation on an operand that depends on no stage (Constant, Variable) makes
                // Differentiate::initializeVirtual call System::realize(state, Stage::Empty/Model), which throws: observation, not generated
                std::function<bool(int)> timeDep = [&](int i) { const Node& x = tr.n[i]; return x.type == 1 || x.type == 2 || x.type == 7 || (x.type >= 3 && x.type <= 5 && (timeDep(x.l) || (x.type != 5 && timeDep(x.r)))); };
                if ((d.flags & 1) && (d.over >= 0 || timeDep(d.operand))) df.setForceUseApproximation(true); DM.push_back(df); break; }
            }
            D.push_back(d);
        }
        VM.resize(D.size());
        State init = sys.realizeTopology();
        for (size_t v = 0; v < vars.size(); ++v) vars[v].setValue(init, tr.n[varNode[v]].a);   // non-default value through the public setter
        sys.realizeModel(init);
        const double tStart = p.cfgr("t0", 0); init.setTime(tStart);
        const double fixed = p.cfgr("fixed", 0), maxstep = std::max(1e-3, p.cfgr("maxstep", 0.02));
        std::unique_ptr<Integrator> integ(makeIntegrator(ik, sys, fixed > 0 ? fixed : maxstep));
        integ->setAccuracy(std::min(0.1, std::max(1e-9, p.cfgr("accuracy", 1e-3))));
        if (fixed > 0 && ik != 6 && ik != 8) integ->setFixedStepSize(fixed); else if (ik != 6) integ->setMaximumStepSize(maxstep);
        const double h = (fixed > 0 && ik != 8) ? fixed : (ik == 6 ? maxstep : maxstep);
        const double T = tStart + std::max(0.2, p.cfgr("final", 1.0));
        integ->setFinalTime(T);
        { long ev = p.cfgn("every", 0); if (ev == 1) integ->setReturnEveryInternalStep(true); else if (ev == 2) integ->setReturnEveryInternalStep(false); }   // 0: setter never called (default), 2: explicitly off
        { long iv = p.cfgn("interp", 1); if (iv == 0) integ->setAllowInterpolation(false); else if (iv == 2) integ->setAllowInterpolation(true); }   // 1: setter never called (default), 2: explicitly on
        res.count(std::string("integ_") + IntegNames[ik]);
        try { integ->initialize(init); } catch (const std::exception& e) {
            // Differentiate (numerical approximation in use) over an operand that depends on no stage at or above Time:
            // its auto-update variable is allocated as invalidating the operand's stage (Empty/Model), so initializing
            // it knocks the State back below Model and Integrator::initialize() fails.
            bool diffConst = false;
            for (size_t i = 0; i < D.size(); ++i) if (D[i].kind == 6 && D[i].over < 0 && Measure::Differentiate::getAs(DM[i]).isUsingApproximation() && M[D[i].operand].getDependsOnStage() < Stage::Time) diffConst = true;
            if (diffConst && std::string(e.what()).find("at least Model") != std::string::npos) { res.fail("differentiate-stage-independent-operand", "measure=Differentiate approx operand-stage<Time", std::string("Integrator::initialize fails: ") + e.what()); return res; }
            res.inconclusive = true; res.detail = std::string("initialize failed: ") + e.what(); return res; }
        const double acc = integ->getAccuracyInUse();
        const bool errorControlled = integ->methodHasErrorControl() && !(fixed > 0 && ik != 8);

        double t0 = tStart;                       // start of the current study (last initialize)
        std::vector<double> lowMax(D.size(), -Infinity), lowMin(D.size(), Infinity), lowMaxAbs(D.size(), -Infinity), lowMinAbs(D.size(), Infinity);
        std::vector<Vec3> vLow(D.size());
        auto resetEpoch = [&](double t) { t0 = t; for (size_t i = 0; i < D.size(); ++i) { lowMax[i] = lowMaxAbs[i] = -Infinity; lowMin[i] = lowMinAbs[i] = Infinity; bool isMax = D[i].kind == 7 && (D[i].flags % 4 == 0 || D[i].flags % 4 == 2); vLow[i] = Vec3(isMax ? -Infinity : Infinity); } };
        resetEpoch(tStart);
        int nret = 0; long measFaultFired = 0, retried = 0; bool sawInterp = false; long rejectedBefore = 0;
        // true extreme of node i over [a,b] by fine sampling; 'slack' bounds what lies between samples
        // the operand of derived measure d as a closed form: a tree node, or (nested) the Integrate measure D[d.over]
        auto gEv = [&](const Derived& d, double t, int der) { if (d.over < 0) return tr.ev(d.operand, t, der); const Derived& I = D[d.over]; return der == 0 ? I.p1 + tr.ev(I.operand, t, -1) - tr.ev(I.operand, t0, -1) : tr.ev(I.operand, t, der - 1); };
        auto gBound = [&](const Derived& d, int der, double a, double b) { if (d.over < 0) return tr.bound(d.operand, der, a, b); if (der >= 1) return tr.bound(D[d.over].operand, der - 1, a, b);
            double m = 0; for (int k = 0; k <= 400; ++k) m = std::max(m, std::abs(gEv(d, a + (b - a) * k / 400.0, 0))); return 1.1 * m + 1e-12; };
        // how far the library's Integrate may be from the closed-form integral (the statement: 'to integrator accuracy')
        auto intTol = [&](const Derived& I, double t) { double fm = tr.bound(I.operand, 0, t0, T), f1m = tr.bound(I.operand, 1, t0, T); return errorControlled ? 1000 * acc * (t - t0 + 0.1) * (fm + 1) + 1e-9 : 2 * h * (f1m + fm) * (t - t0 + h) + 1e-9; };
        auto trueExtF = [&](const std::function<double(double)>& fn, double b1, double b2, double a, double b, int what, double& slack) {
            int N = (int)std::min(20000.0, std::max(50.0, std::ceil((b - a) / 2e-4))); double dx = (b - a) / N; double best = what == 0 || what == 2 ? -Infinity : Infinity;
            double prev = 0;
            for (int k = 0; k <= N; ++k) { double raw = fn(a + dx * k), v = what >= 2 ? std::abs(raw) : raw; best = (what == 0 || what == 2) ? std::max(best, v) : std::min(best, v);
                if (what == 3 && k > 0 && ((prev < 0) != (raw < 0))) best = 0;      // |f| reaches 0 at a sign change: not smooth there
                prev = raw; }
            slack = b2 * dx * dx / 8 + b1 * 1e-12 + 1e-9; return best; };

        auto checkState = [&](const State& s, bool interpolated, const std::string& ctx) {
            const double t = s.getTime();
            for (int attempt = 0; ; ++attempt) {
                try { sys.realize(s, Stage::Acceleration); break; }
                catch (const std::exception& e) {
                    // an injected transient measure failure may surface inside realize() too (a stateful measure evaluating
                    // its operand): the client catches and asks again for the same state
                    if (attempt == 0 && mf.fired > measFaultFired) { measFaultFired = mf.fired; ++retried; continue; }
                    res.fail("realize-failed", isig, std::string("returned state cannot be realized: ") + e.what() + ctx); return; }
            }
            // transient measure failure at this returned state: catch, and ask again for the same state
            auto val = [&](const Measure& m, bool& failedOnce) -> double {
                try { return m.getValue(s); } catch (const std::exception& e) {
                    if (mf.fired <= measFaultFired) throw;      // not ours
                    measFaultFired = mf.fired; failedOnce = true; ++retried; return m.getValue(s); } };
            // which is asked first at this returned state is up to the client: on every other return the first time derivative of
            // each formula measure that offers one is read before any value (exact closed forms)
            if ((nret & 1) == 0) for (size_t i = 0; i < tr.n.size() && !res.violation; ++i) {
                if (M[i].getNumTimeDerivatives() < 1 || tr.n[i].type == 7) continue;
                double got, want = tr.ev((int)i, t, 1);
                try { got = M[i].getValue(s, 1); } catch (const std::exception& e) { continue; }
                if (!(std::abs(got - want) <= 1e-10 * (1 + std::abs(want)))) res.fail("formula-derivative-wrong", isig + " measure=formula type=" + std::to_string(tr.n[i].type), "first time derivative of node " + std::to_string(i) + " (type " + std::to_string(tr.n[i].type) + ") = " + S(got) + " expected " + S(want) + ctx);
                res.count("probe_derivative_read_before_value");
            }
            // formula measures: exact
            for (size_t i = 0; i < tr.n.size() && !res.violation; ++i) {
                bool f1 = false; double got, want = tr.ev((int)i, t, 0);
                try { got = val(M[i], f1); } catch (const std::exception& e) { res.fail("measure-threw", isig + " measure=formula", std::string("getValue threw: ") + e.what() + ctx); return; }
                if (!(std::abs(got - want) <= 1e-11 * (1 + std::abs(want)))) res.fail("formula-wrong", isig + " measure=formula type=" + std::to_string(tr.n[i].type) + (f1 ? " after-transient-failure" : ""), "node " + std::to_string(i) + " (type " + std::to_string(tr.n[i].type) + ") = " + S(got) + " expected " + S(want) + ctx);
            }
            int integrateOrdinal = 0;
            for (size_t i = 0; i < D.size() && !res.violation; ++i) {
                const Derived& d = D[i]; bool f1 = false; double got = 0;
                std::string ms = isig + (d.over >= 0 ? " nested-over-Integrate" : "") + " measure=";
                if (d.kind >= 7) {      // Vec3 operands: every element is held to the scalar definition
                    Vec3 gv; try { gv = VM[i].getValue(s); } catch (const std::exception& e) { res.fail("measure-threw", ms + "vec", std::string("getValue threw: ") + e.what() + ctx); return; }
                    for (int k = 0; k < 3 && !res.violation; ++k) {
                        const double A = std::abs(d.va) * (1 + 0.3 * k), B = d.vb * (1 + 0.5 * k); auto fk = [&](double x) { return HMeas<Vec3>::Implementation::comp(d.va, d.vb, d.vc, k, x, 0); };
                        if (d.kind == 7) { int what = d.flags % 4; double slack; double ext = trueExtF(fk, A * B, A * B * B, t0, std::max(t, t0), what, slack); const char* nm[] = {"Maximum", "Minimum", "MaxAbs", "MinAbs"};
                            double g = what >= 2 ? std::abs(gv[k]) : gv[k], cur = what >= 2 ? std::abs(fk(t)) : fk(t); bool isMax = what == 0 || what == 2; double lowNow = isMax ? std::max(vLow[i][k], cur) : std::min(vLow[i][k], cur);
                            if (isMax ? !(g <= ext + slack) : !(g >= ext - slack)) res.fail("extreme-beyond-trajectory", ms + nm[what] + "<Vec3>", std::string(nm[what]) + "<Vec3> element " + std::to_string(k) + " = " + S(gv[k]) + " but that element's true extreme over [" + S(t0) + "," + S(t) + "] is " + S(ext) + ctx);
                            else if (isMax ? !(g >= lowNow - 1e-9 * (1 + std::abs(lowNow))) : !(g <= lowNow + 1e-9 * (1 + std::abs(lowNow)))) res.fail("extreme-lost-update", ms + nm[what] + "<Vec3>", std::string(nm[what]) + "<Vec3> element " + std::to_string(k) + " = " + S(gv[k]) + " but that element already reached " + S(lowNow) + " at a returned state of this study" + ctx);
                            if (!interpolated) vLow[i][k] = lowNow; }
                        else { double td = t - d.p1; double want = td <= t0 ? fk(t0) : fk(td); double tol = 2 * A * B * B * h * h + 1e-9; if (td > t0 && (td - t0 < 3 * h || t - t0 < 3 * h)) tol += A * B * h;
                            if (!(std::abs(gv[k] - want) <= tol)) res.fail(std::isnan(gv[k]) ? "delay-nan" : "delay-wrong", ms + "Delay<Vec3>", "Delay<Vec3>(" + S(d.p1) + ") element " + std::to_string(k) + " = " + S(gv[k]) + " expected " + S(want) + " (tolerance " + S(tol) + ")" + ctx); }
                    }
                    continue;
                }
                try { got = val(DM[i], f1); } catch (const std::exception& e) { res.fail("measure-threw", isig + " measure=" + std::to_string(d.kind), std::string("getValue threw: ") + e.what() + ctx); return; }
                const double f = gEv(d, t, 0); const double nestTol = d.over >= 0 ? intTol(D[d.over], t) : 0.0;
                switch (d.kind) {
                case 0: { double want = d.p1 + tr.ev(d.operand, t, -1) - tr.ev(d.operand, t0, -1);
                    double tol = intTol(d, t);
                    if (!(std::abs(got - want) <= tol)) res.fail("integrate-wrong", ms + "Integrate", "Integrate = " + S(got) + " expected " + S(want) + " (tolerance " + S(tol) + ", study started at " + S(t0) + ")" + ctx);
                    // the value an Integrate measure reports for a state IS that state's z for it (z's are allocated in measure order; the harness system has no z of its own)
                    // (probe only) the reported value can be a stale copy of the state's z for it: within accuracy, so not a matter for this property; see the C16 known finding
                    else if (integrateOrdinal < s.getNZ() && got != s.getZ()[integrateOrdinal]) res.count("probe_integrate_value_is_stale_copy_of_z");
                    ++integrateOrdinal; break; }
                case 1: case 2: case 3: case 4: {
                    int what = d.kind == 1 ? 0 : d.kind == 2 ? 1 : d.kind == 3 ? 2 : 3; double slack; double ext = trueExtF([&](double x) { return gEv(d, x, 0); }, gBound(d, 1, t0, std::max(t, t0 + 1e-9)), gBound(d, 2, t0, std::max(t, t0 + 1e-9)), t0, std::max(t, t0), what, slack);
                    slack += nestTol;
                    double g = what >= 2 ? std::abs(got) : got; const char* nm[] = {"Maximum", "Minimum", "MaxAbs", "MinAbs"};
                    // for a nested operand "what the operand reached at returned states" is what the library's own Integrate reported there
                    double curRaw = d.over >= 0 ? DM[d.over].getValue(s) : f; double cur = what >= 2 ? std::abs(curRaw) : curRaw;
                    double& low = what == 0 ? lowMax[i] : what == 1 ? lowMin[i] : what == 2 ? lowMaxAbs[i] : lowMinAbs[i];
                    bool isMax = what == 0 || what == 2;
                    double lowNow = isMax ? std::max(low, cur) : std::min(low, cur);
                    // beyond the true extreme over [t0,t]: something not on the trajectory so far leaked in (trial step, stale study)
                    if (isMax ? !(g <= ext + slack) : !(g >= ext - slack)) res.fail("extreme-beyond-trajectory", ms + nm[what], std::string(nm[what]) + " = " + S(got) + " but the operand's true extreme over [" + S(t0) + "," + S(t) + "] is " + S(ext) + ctx);
                    // short of what was seen at this and earlier returned step states: an update was lost
                    else if (isMax ? !(g >= lowNow - 1e-9 * (1 + std::abs(lowNow))) : !(g <= lowNow + 1e-9 * (1 + std::abs(lowNow)))) res.fail("extreme-lost-update", ms + nm[what], std::string(nm[what]) + " = " + S(got) + " but the operand already reached " + S(lowNow) + " at a returned state of this study" + ctx);
                    if (!interpolated) low = lowNow;
                    break; }
                case 5: { double td = t - d.p1; double want = td <= t0 ? gEv(d, t0, 0) : gEv(d, td, 0);
                    double f2 = gBound(d, 2, t0, T), f1m = gBound(d, 1, t0, T);
                    double tol = 2 * f2 * h * h + 1e-9 + nestTol; if (td > t0 && td - t0 < 3 * h) tol += f1m * h;     // buffer still short right after the start
                    if (td > t0 && t - t0 < 3 * h) tol += f1m * h;
                    if (!(std::abs(got - want) <= tol)) res.fail(std::isnan(got) ? "delay-nan" : "delay-wrong", ms + "Delay", "Delay(" + S(d.p1) + ") = " + S(got) + " expected operand(t-delay) = " + S(want) + " (tolerance " + S(tol) + ", max step " + S(h) + ", study started at " + S(t0) + ")" + ctx);
                    break; }
                default: { Measure::Differentiate df = Measure::Differentiate::getAs(DM[i]); double want = gEv(d, t, 1);
                    double tol;
                    if (!df.isUsingApproximation()) tol = 1e-9 * (1 + std::abs(want));
                    else { double f2 = gBound(d, 2, t0, T), f3 = gBound(d, 3, t0, T), f1m = gBound(d, 1, t0, T); tol = 4 * (t - t0 + 1) * h * (2 * f2 + f3) + (t - t0 < 3 * h ? f1m : 0) + 1e-9; if (t == t0) tol += f1m; }
                    // a numerical derivative of the library's own Integrate amplifies that measure's integration error by 1/h: no sound bound, not checked
                    if (d.over >= 0 && df.isUsingApproximation()) break;
                    if (!(std::abs(got - want) <= tol)) res.fail(std::isnan(got) ? "differentiate-nan" : "differentiate-wrong", ms + "Differentiate" + (df.isUsingApproximation() ? " approx" : " exact"), "Differentiate = " + S(got) + " expected " + S(want) + " (tolerance " + S(tol) + ")" + ctx);
                    break; }
                }
            }
        };

        bool over = false; int req = -1;
        for (auto& op : p.ops) {
            if (over || res.violation) break;
            if (op.kind == "reinit") {
                State again(integ->getAdvancedState());
                try { integ->initialize(again); } catch (const std::exception& e) { res.inconclusive = true; res.detail = e.what(); break; }
                resetEpoch(integ->getTime()); res.count("probe_reinitialized"); key.mix(77);
                checkState(integ->getState(), false, " [right after re-initialization at t=" + S(t0) + "]");
                continue;
            }
            if (op.kind != "step") continue;
            ++req;
            double target = std::min(T, integ->getTime() + std::abs(op.real("d", 0.1)));
            for (int guard = 0; guard < 100000 && !over && !res.violation; ++guard) {
                ctl.disarm(); for (auto& fl : p.faults) if (fl.kind == "throw" && fl.num("req", 0) == req && guard == 0) ctl.arm(std::max(1L, fl.num("nth", 1)), -1, fl.num("burst", 1));
                long fb = ctl.firedThrow; Integrator::SuccessfulStepStatus st;
                try { st = integ->stepTo(std::max(target, integ->getTime()), Infinity); }
                catch (const std::exception& e) { if (ctl.firedThrow > fb) res.count("failed_legitimately"); else { res.inconclusive = true; res.detail = std::string("stepTo threw without fault: ") + e.what(); } over = true; break; }
                ctl.disarm();
                const double t = integ->getTime();
                key.mix((uint64_t)st * 2 + integ->isStateInterpolated()); hash.mix((uint64_t)st); hash.mixd(t);
                if (integ->isStateInterpolated()) sawInterp = true;
                std::string ctx = " [" + std::string(Integrator::getSuccessfulStepStatusString(st).c_str()) + " t=" + S(t) + " tAdv=" + S(integ->getAdvancedTime()) + (integ->isStateInterpolated() ? " interpolated" : "") + "]";
                // arm a transient measure failure for this returned state
                mf.armed = false; for (auto& fl : p.faults) if (fl.kind == "measthrow" && fl.num("ret", 0) == nret) { mf.armed = true; mf.evals = 0; mf.throwAt = std::max(1L, fl.num("nth", 1)); }
                ++nret;
                checkState(integ->getState(), integ->isStateInterpolated(), ctx);
                mf.armed = false;
                if (st == Integrator::TimeHasAdvanced) { integ->reinitialize(Stage::Report, false); continue; }
                if (st == Integrator::EndOfSimulation) { over = true; break; }
                if (st == Integrator::ReachedReportTime && t >= target) break;
            }
        }
        long rejected = integ->getNumErrorTestFailures() + integ->getNumConvergenceTestFailures();
        res.count("probe_rejected_steps", rejected); res.count("fault_eval_throw", ctl.firedThrow); res.count("fault_measure_transient_failure", mf.fired); res.count("probe_retried_after_measure_failure", retried);
        res.count("returns_checked", nret);
        bool hasStateful = false; for (auto& d : D) { if (d.kind >= 1) hasStateful = true; if (d.over >= 0) res.count("probe_nested_over_integrate"); if (d.kind >= 7) res.count("probe_vec3_measure"); }
        res.simtime = integ->getAdvancedTime() - tStart;
        res.nontrivial = hasStateful && sawInterp && rejected >= 1;
        res.key = key.h; res.hash = hash.h;
        return res;
    }
};

int main(int argc, char** argv) { C23 e; return vf::engineMain(argc, argv, e); }
