// C22 — events are detected, localised and handled in time order.
// Two drives over the same analytic system and real handler objects:
//   direct : the harness plays the time stepper (as in C19) so that it sees every
//            ReachedEventTrigger with its window and before/after states;
//   stepper: the real TimeStepper runs; the oracle works on the handler call log.
#include "isys.h"
using namespace hi;
using vf::Plan; using vf::Op; using vf::Result; using vf::Rng;

struct Wit { int kind; double w, phi, c; bool rise, fall; double window; };
struct Root { double t; int wit; bool rising; bool reported = false; bool required = false; };
struct Epoch { double a, b; size_t logBegin, logEnd; };

struct C22 : vf::Engine {
    const char* property() const override { return "C22"; }

    Plan generate(uint64_t seed, const std::string& tier, const std::string& mode) override {
        Rng r(seed); Plan p; p.property = "C22"; p.seed = seed;
        bool faults = mode == "faults";
        int integ = (int)r.below(NINTEG);
        p.setcfg("integ", integ);
        p.setcfg("drive", r.chance(0.5) ? "direct" : "stepper");
        p.setcfg("nosc", r.range(1, 2)); p.setcfg("nz", 1);
        p.setcfg("sys_seed", (uint64_t)(r.next() >> 8));
        p.setcfgr("accuracy", std::pow(10.0, -r.range(2, (integ == 0 || integ == 1 || integ == 5 || integ == 7) ? 3 : 6)));
        bool fixed = (r.chance(0.2) && integ != 8) || integ == 6;
        p.setcfgr("fixed", fixed ? r.pick(std::vector<double>{0.002, 0.005, 0.01, 0.02}) : 0.0);
        p.setcfgr("maxstep", r.pick(std::vector<double>{0.01, 0.02, 0.04}));
        double T = r.uni(0.8, 3.0);
        p.setcfgr("final", T);
        p.setcfg("every", r.chance(0.2) ? 1 : (r.chance(0.3) ? 2 : 0));
        p.setcfg("interp", r.chance(0.85) ? (r.chance(0.3) ? 2 : 1) : 0);
        p.setcfg("reportall", r.chance(0.5) ? 1 : 0);
        int nw = r.range(1, 3);
        for (int i = 0; i < nw; ++i) {
            char b[200]; int dir = (int)r.below(3);
            std::snprintf(b, sizeof b, "%d %.17g %.17g %.17g %d %d %.17g", r.chance(0.75) ? 0 : 1, r.uni(1, 6), r.uni(-3, 3), r.uni(-0.7, 0.7), dir != 1 ? 1 : 0, dir != 0 ? 1 : 0,
                          r.chance(0.5) ? 0.0 : r.pick(std::vector<double>{1e-1, 1e-2, 1e-3, 1e-4, 1.0}));
            p.setcfg("wit" + std::to_string(i), b);
        }
        { int ns = r.range(0, 4); std::string s; std::vector<double> ts;
          for (int i = 0; i < ns; ++i) { double t = r.chance(0.15) ? 0.0 : (r.chance(0.3) ? std::round(r.uni(0, T) * 8) / 8 : r.uni(0, T)); if (r.chance(0.1) && !ts.empty()) t = ts[0]; ts.push_back(t); }
          std::sort(ts.begin(), ts.end()); for (double t : ts) { char b[40]; std::snprintf(b, sizeof b, "%.17g ", t); s += b; }
          p.setcfg("sched", s); }
        p.setcfgr("period", r.chance(0.6) ? r.pick(std::vector<double>{0.1, 0.125, 0.3, 0.7, 0.01 * r.range(7, 60)}) : 0.0);
        p.setcfgr("rperiod", r.chance(0.5) ? r.pick(std::vector<double>{0.05, 0.1, 0.25, 0.33}) : 0.0);
        int nreq = r.range(3, 25);
        for (int k = 0; k < nreq; ++k) {
            if (k > 1 && r.chance(0.09) && integ != 8) { p.ops.push_back(vf::mkop("reinit").set("how", (int)r.below(2))); continue; }
            p.ops.push_back(vf::mkop("step").setr("d", r.chance(0.5) ? r.uni(0.01, 0.2) : r.uni(0.1, 1.0)));
        }
        p.ops.push_back(vf::mkop("step").setr("d", 10.0));
        // handlers that change the state (always some: "later integration starts from the state the handlers produced")
        int nh = r.range(0, 3);
        for (int i = 0; i < nh; ++i) p.faults.push_back(vf::mkop("hset").set("h", (int)r.below(3)).set("n", r.range(1, 4)).set("what", (int)r.below(3)));
        if (faults) {
            if (r.chance(0.4)) p.faults.push_back(vf::mkop("hterm").set("h", (int)r.below(3)).set("n", r.range(1, 5)));
            int nf = r.range(1, 2);
            for (int i = 0; i < nf; ++i) p.faults.push_back(vf::mkop("throw").set("req", (int)r.below(nreq)).set("nth", r.range(1, 10)).set("burst", r.range(1, 2)));
        }
        return p;
    }

    Result execute(const Plan& p) override {
        Result res; vf::Hash key, hash;
        auto S = [](double v) { char b[40]; std::snprintf(b, sizeof b, "%.17g", v); return std::string(b); };
        Rng sr((uint64_t)std::strtoull(p.cfg("sys_seed", "1").c_str(), 0, 10));
        int nosc = (int)std::max(1L, std::min(3L, p.cfgn("nosc", 1)));
        std::vector<Osc> osc; std::vector<Zdef> zs;
        for (int i = 0; i < nosc; ++i) osc.push_back({sr.uni(0.5, 2), sr.uni(0.5, 6), sr.uni(-3, 3)});
        zs.push_back({sr.uni(0.5, 2), sr.uni(0.2, 2)});
        FaultCtl ctl; HLog hlog;
        HSystem sys(osc, zs, &ctl);
        std::vector<Wit> wits;
        for (int i = 0; i < 8; ++i) {
            if (!p.hascfg("wit" + std::to_string(i))) continue;
            std::istringstream is(p.cfg("wit" + std::to_string(i))); Wit w; int rise = 1, fall = 1; w.window = 0;
            is >> w.kind >> w.w >> w.phi >> w.c >> rise >> fall >> w.window; w.rise = rise; w.fall = fall;
            if (!w.rise && !w.fall) w.rise = true;
            if (w.w < 0.2) w.w = 0.2;
            wits.push_back(w);
        }
        const int ik = (int)(((p.cfgn("integ", 3) % NINTEG) + NINTEG) % NINTEG);
        const std::string isig = std::string("integrator=") + IntegNames[ik] + (ik == 8 ? (p.cfgn("interp", 1) ? " interp=1" : " interp=0") : "");
        const bool direct = p.cfg("drive", "direct") == "direct";
        const double T = std::max(0.1, p.cfgr("final", 1.0));
        const double maxstep = std::max(1e-3, p.cfgr("maxstep", 0.02));
        const double fixed = p.cfgr("fixed", 0);

        // ---- handler actions (state changes / termination), attached to a handler and its n-th call
        struct Act { int h; long n; int what; bool term; };
        std::vector<Act> acts;
        for (auto& f : p.faults) { if (f.kind == "hset") acts.push_back({(int)f.num("h", 0), std::max(1L, f.num("n", 1)), (int)f.num("what", 0), false}); if (f.kind == "hterm") acts.push_back({(int)f.num("h", 0), std::max(1L, f.num("n", 1)), 0, true}); }
        // reference for z[0] (piecewise exponential restarted by handlers) and sentinel bookkeeping
        double zBase = zs[0].z0, zT = 0; bool zDirty = false;
        long sentinel = 0; bool terminated = false; double termTime = -1; size_t termIndex = 0;
        std::vector<long> calls(3, 0);
        long firedSet = 0, firedTerm = 0;
        struct Change { double t; int what; double val; };
        std::vector<Change> changes;
        auto act = [&](int h, State& s, bool& term) {
            long n = ++calls[h];
            for (auto& a : acts) if (a.h % 3 == h && a.n == n) {
                if (a.term) { term = true; if (!terminated) termIndex = hlog.ev.size(); terminated = true; termTime = s.getTime(); ++firedTerm; }
                else {
                    ++firedSet; double v = 10.0 + (double)(++sentinel);
                    if (a.what == 0) { s.updZ()[0] = v; zBase = v; zT = s.getTime(); changes.push_back({s.getTime(), 0, v}); }
                    else if (a.what == 1) { s.updU()[0] = v; zDirty = zDirty; changes.push_back({s.getTime(), 1, v}); }
                    else { s.updQ()[0] = v; changes.push_back({s.getTime(), 2, v}); }
                }
            }
        };
        std::vector<TrigHandler*> trig;
        for (size_t i = 0; i < wits.size(); ++i) {
            Wit w = wits[i]; std::function<Real(const State&)> f;
            if (w.kind == 0) f = [w](const State& s) { return std::sin(w.w * s.getTime() + w.phi) - w.c; };
            else { int qi = (int)i % nosc; double c = w.c * osc[qi].A; f = [qi, c](const State& s) { return s.getQ()[qi] - c; }; }
            TrigHandler* h = new TrigHandler((int)i, w.kind == 0 ? Stage::Time : Stage::Position, f, &hlog, w.rise, w.fall, w.window);
            h->action = [&](State& s, bool& t) { act(0, s, t); };
            sys.addEventHandler(h); trig.push_back(h);
        }
        std::vector<double> timeline; { std::istringstream is(p.cfg("sched", "")); double t; while (is >> t) if (t >= 0) timeline.push_back(t); std::sort(timeline.begin(), timeline.end()); }
        TimelineHandler* tl = nullptr; PerHandler* per = nullptr; PerReporter* rep = nullptr;
        const double P = p.cfgr("period", 0), RP = p.cfgr("rperiod", 0);
        if (!direct) {
            if (!timeline.empty()) { tl = new TimelineHandler(0, timeline, &hlog); tl->action = [&](State& s, bool& t) { act(1, s, t); }; sys.addEventHandler(tl); }
            if (P > 0) { per = new PerHandler(0, P, &hlog); per->action = [&](State& s, bool& t) { act(2, s, t); }; sys.addEventHandler(per); }
            if (RP > 0) { rep = new PerReporter(0, RP, &hlog); sys.addEventReporter(rep); }
        }
        State init = sys.realizeTopology(); sys.realizeModel(init);
        std::unique_ptr<Integrator> integ(makeIntegrator(ik, sys, fixed > 0 ? fixed : maxstep));
        integ->setAccuracy(std::min(0.1, std::max(1e-9, p.cfgr("accuracy", 1e-3))));
        if (fixed > 0 && ik != 6 && ik != 8) integ->setFixedStepSize(fixed); else if (ik != 6) integ->setMaximumStepSize(maxstep);
        integ->setFinalTime(T);
        { long ev = p.cfgn("every", 0); if (ev == 1) integ->setReturnEveryInternalStep(true); else if (ev == 2) integ->setReturnEveryInternalStep(false); }   // 0: setter never called (default), 2: explicitly off
        { long iv = p.cfgn("interp", 1); if (iv == 0) integ->setAllowInterpolation(false); else if (iv == 2) integ->setAllowInterpolation(true); }   // 1: setter never called (default), 2: explicitly on
        const double hmax = (fixed > 0 && ik != 8) ? std::max(fixed, ik == 6 ? fixed : 0.0) : maxstep;
        res.count(std::string("integ_") + IntegNames[ik]); res.count(direct ? "drive_direct" : "drive_stepper");

        // ---- true roots of the time witnesses (exact): sin(w t + phi) = c
        std::vector<Root> roots;
        for (size_t i = 0; i < wits.size(); ++i) {
            const Wit& w = wits[i]; if (w.kind != 0 || std::abs(w.c) >= 0.999) continue;
            double a = std::asin(w.c);
            for (int k = -40; k <= 40; ++k) for (int br = 0; br < 2; ++br) {
                double th = br == 0 ? a + 2 * Pi * k : Pi - a + 2 * Pi * k;
                double t = (th - w.phi) / w.w; if (t <= 0 || t >= T) continue;
                Root rt; rt.t = t; rt.wit = (int)i; rt.rising = br == 0;   // d/dt sin = w cos(th): >0 on the asin branch (w>0)
                roots.push_back(rt);
            }
        }
        std::sort(roots.begin(), roots.end(), [](const Root& x, const Root& y) { return x.t < y.t; });
        for (size_t i = 0; i < roots.size(); ++i) {
            Root& rt = roots[i]; const Wit& w = wits[rt.wit];
            bool monitored = rt.rising ? w.rise : w.fall;
            double gap = 1e9;
            for (size_t j = 0; j < roots.size(); ++j) if (j != i && roots[j].wit == rt.wit) gap = std::min(gap, std::abs(roots[j].t - rt.t));
            // "persists across a step": the sign stays changed for well over the largest step taken
            rt.required = monitored && gap > 6 * hmax && rt.t > 6 * hmax && rt.t < T - 6 * hmax;
        }

        TimeStepper ts(sys, *integ);
        try { if (direct) integ->initialize(init); else ts.initialize(init); } catch (const std::exception& e) { res.inconclusive = true; res.detail = std::string("initialize failed: ") + e.what(); return res; }
        const double accInUse = integ->getAccuracyInUse(), tscale = sys.getDefaultTimeScale();
        double lastWindowHigh = -Infinity; int nTrig = 0, nSched = 0; std::set<int> statuses;
        double epochStart = 0;   // time of the last (re)initialization
        std::vector<Epoch> epochs;  // initialization epochs (stepper drive): [a,b] and their slice of the handler log
        bool failedLegit = false;

        auto witnessVal = [&](size_t i, const State& s) { return trig[i]->getValue(s); };
        auto checkMissed = [&](double tret, const std::string& ctx) {
            for (auto& rt : roots) if (rt.required && !rt.reported && rt.t >= epochStart + 6 * hmax && tret > rt.t + 1e-6 + 2 * hmax) {
                res.fail("event-missed", isig, "witness " + std::to_string(rt.wit) + " crosses zero (" + (rt.rising ? "rising" : "falling") + ") at t=" + S(rt.t) + " and stays changed, but time " + S(tret) + " was returned without reporting it" + ctx);
                return; }
        };
        auto checkZ = [&](const State& s, const std::string& ctx) {
            // integration must continue from what the handlers produced
            double t = s.getTime(); double zr = zBase * std::exp(-zs[0].k * (t - zT));
            double tol = (0.03 + 20 * std::min(accInUse, 0.01)) * std::abs(zBase) + 1e-6;   // relative to what the handler wrote: a lost change is off by most of it
            if (std::isnan(s.getZ()[0])) res.fail("state-nan", isig, "returned state contains NaN (z[0]) at t=" + S(t) + ctx);
            else if (!(std::abs(s.getZ()[0] - zr) <= tol)) res.fail("handler-state-lost", isig, "z[0]=" + S(s.getZ()[0]) + " at t=" + S(t) + " but the state the handlers produced (z=" + S(zBase) + " at t=" + S(zT) + ") evolves to " + S(zr) + ctx);
        };

        if (direct) {
            // ================= direct drive =================
            double lastEventTime = -Infinity; bool over = false; int req = -1;
            for (auto& op : p.ops) {
                if (over || res.violation) break;
                if (op.kind == "reinit") {
                    State again(integ->getAdvancedState());
                    try { integ->initialize(again); } catch (const std::exception& e) { res.inconclusive = true; res.detail = e.what(); break; }
                    epochStart = integ->getTime(); lastEventTime = -Infinity; lastWindowHigh = -Infinity; res.count("probe_reinitialized"); key.mix(77); continue;
                }
                if (op.kind != "step") continue;
                ++req;
                double target = std::min(T, integ->getTime() + std::abs(op.real("d", 0.1)));
                // keep issuing requests until the report time is reached (events return earlier)
                for (int guard = 0; guard < 100000 && !over && !res.violation; ++guard) {
                    const double t0 = integ->getTime();
                    double s = Infinity; for (double t : timeline) if (t > t0 || (t == t0 && lastEventTime != t0)) { s = t; break; }
                    ctl.disarm(); for (auto& fl : p.faults) if (fl.kind == "throw" && fl.num("req", 0) == req && guard == 0) ctl.arm(std::max(1L, fl.num("nth", 1)), -1, fl.num("burst", 1));
                    long fb = ctl.firedThrow; Integrator::SuccessfulStepStatus st;
                    try { st = integ->stepTo(std::max(target, t0), s); }
                    catch (const std::exception& e) { if (ctl.firedThrow > fb) { failedLegit = true; res.count("failed_legitimately"); } else { res.inconclusive = true; res.detail = std::string("stepTo threw without fault: ") + e.what(); } over = true; break; }
                    ctl.disarm();
                    const double t = integ->getTime(), adv = integ->getAdvancedTime();
                    statuses.insert((int)st); key.mix((uint64_t)st); hash.mix((uint64_t)st); hash.mixd(t); hash.mixd(adv);
                    std::string ctx = " [" + std::string(Integrator::getSuccessfulStepStatusString(st).c_str()) + " t=" + S(t) + " tAdv=" + S(adv) + "]";
                    if (getenv("VERIF_DEBUG")) std::fprintf(stderr, "%s z=%.6g zadv=%.6g\n", ctx.c_str(), integ->getState().getZ()[0], integ->getAdvancedState().getZ()[0]);
                    if (st == Integrator::ReachedEventTrigger) {
                        ++nTrig;
                        Vec2 w = integ->getEventWindow();
                        if (t != w[0]) res.fail("before-state-not-at-tlow", isig, "returned state time differs from tLow=" + S(w[0]) + ctx);
                        if (adv != w[1] && ik != 8) res.fail("advanced-not-at-thigh", isig, "advanced state time differs from tHigh=" + S(w[1]) + ctx);
                        if (w[0] < lastWindowHigh) res.fail("windows-out-of-order", isig, "event window (" + S(w[0]) + "," + S(w[1]) + "] begins before the previous one ended at " + S(lastWindowHigh) + ctx);
                        lastWindowHigh = w[1];
                        // which witnesses changed sign in a monitored direction across the window (the integrator's own states)
                        std::vector<int> changed(wits.size(), 0);
                        for (size_t i = 0; i < wits.size(); ++i) {
                            double lo = witnessVal(i, integ->getState()), hi = witnessVal(i, integ->getAdvancedState());
                            if (wits[i].kind == 0) { lo = std::sin(wits[i].w * w[0] + wits[i].phi) - wits[i].c; hi = std::sin(wits[i].w * w[1] + wits[i].phi) - wits[i].c; }
                            // time witnesses are exact; state witnesses are seen through interpolated states (the before-state is
                            // re-interpolated after the advanced state was backed up), so values within eps of zero count as either sign
                            const double eps = wits[i].kind == 0 ? 0.0 : 0.02 * osc[i % nosc].A;
                            bool up = (lo <= eps && hi > -eps), dn = (lo >= -eps && hi < eps);
                            if (wits[i].kind == 0) { up = (lo <= 0 && hi > 0) || (lo < 0 && hi >= 0); dn = (lo >= 0 && hi < 0) || (lo > 0 && hi <= 0); }
                            changed[i] = (up && wits[i].rise) || (dn && wits[i].fall);
                        }
                        size_t logBefore = hlog.ev.size();
                        HandleEventsOptions hopts(integ->getConstraintToleranceInUse()); HandleEventsResults results;
                        const Array_<EventId> ids = integ->getTriggeredEvents();
                        if (ids.empty()) res.fail("empty-event-list", isig, "ReachedEventTrigger with no triggered events" + ctx);
                        sys.handleEvents(integ->updAdvancedState(), Event::Cause::Triggered, ids, hopts, results);
                        double tightest = Infinity; int nlisted = 0;
                        for (size_t k = logBefore; k < hlog.ev.size(); ++k) if (hlog.ev[k].kind == 1) {
                            int wi = hlog.ev[k].id; ++nlisted;
                            if (hlog.ev[k].t != w[1]) res.fail("handler-not-at-thigh", isig, "triggered handler called at t=" + S(hlog.ev[k].t) + " not at tHigh=" + S(w[1]) + ctx);
                            if (!changed[wi] && ik != 8) res.fail("listed-without-sign-change", isig, "witness " + std::to_string(wi) + " is listed but did not change sign in a monitored direction across (" + S(w[0]) + "," + S(w[1]) + "]" + ctx);
                            double win = wits[wi].window > 0 ? wits[wi].window : 0.1;   // EventTriggerInfo default
                            tightest = std::min(tightest, accInUse * tscale * win);
                            for (auto& rt : roots) if (rt.wit == wi && rt.t > w[0] - 1e-9 && rt.t <= w[1] + 1e-9) rt.reported = true;
                        }
                        if (nlisted != (int)ids.size()) res.fail("listed-count", isig, "number of handlers invoked differs from number of listed events" + ctx);
                        if (nlisted > 1) res.count("probe_two_witnesses_one_window");
                        // localisation: no wider than the tolerance of the listed events (CPodes has its own root finder)
                        double minWin = 1e-13 * std::max(1.0, adv);
                        if (ik != 8 && nlisted && !(w[1] - w[0] <= std::max(tightest, minWin) * (1 + 1e-9) + 1e-15)) res.fail("window-too-wide", isig, "event window width " + S(w[1] - w[0]) + " exceeds the localisation tolerance " + S(tightest) + ctx);
                        if (w[1] - w[0] < 0.5 * std::max(tightest, minWin)) res.count("probe_localisation_iterated");
                        Stage lowest = results.getLowestModifiedStage(); bool term = results.getExitStatus() == HandleEventsResults::ShouldTerminate;
                        integ->reinitialize(lowest, term);
                        if (term) { over = true; if (!integ->isSimulationOver()) res.fail("terminate-ignored", isig, "handler requested termination but the simulation goes on" + ctx); break; }
                        if (lowest < Stage::Report) { checkZ(integ->getState(), ctx + " right after the handler"); }
                        continue;
                    }
                    checkMissed(t, ctx);
                    if (!changes.empty() || true) checkZ(integ->getState(), ctx);
                    if (st == Integrator::ReachedScheduledEvent) { ++nSched; lastEventTime = t; integ->reinitialize(Stage::Report, false); continue; }
                    if (st == Integrator::TimeHasAdvanced) { integ->reinitialize(Stage::Report, false); continue; }
                    if (st == Integrator::EndOfSimulation) { over = true; break; }
                    if (st == Integrator::ReachedReportTime && t >= target) break;
                }
            }
        } else {
            // ================= real TimeStepper =================
            ts.setReportAllSignificantStates(p.cfgn("reportall", 0) != 0);
            epochs.push_back({0.0, Infinity, 0, 0});
            bool over = false; int req = -1;
            for (auto& op : p.ops) {
                if (over || res.violation) break;
                if (op.kind == "reinit") {
                    State again(integ->getAdvancedState()); const double reached = again.getTime(); double tnow = reached;
                    if (op.num("how", 0) == 1) {
                        // restart from a checkpoint taken at the time of the most recent scheduled/periodic handler call
                        for (size_t k = epochs.back().logBegin; k < hlog.ev.size(); ++k) if (hlog.ev[k].kind == 2 || hlog.ev[k].kind == 3) tnow = hlog.ev[k].t;
                        again.setTime(tnow); res.count("probe_reinit_at_event_time");
                    }
                    try { ts.initialize(again); } catch (const std::exception& e) { res.inconclusive = true; res.detail = e.what(); break; }
                    epochs.back().b = reached; epochs.back().logEnd = hlog.ev.size(); epochs.push_back({tnow, Infinity, hlog.ev.size(), 0}); epochStart = tnow;
                    zBase = again.getZ()[0]; zT = tnow;
                    for (auto& rt : roots) if (rt.t >= tnow) rt.reported = false;
                    res.count("probe_reinitialized"); key.mix(77); continue;
                }
                if (op.kind != "step") continue;
                ++req;
                double target = std::min(T * 1.5, integ->getTime() + std::abs(op.real("d", 0.1)));
                for (int guard = 0; guard < 100000 && !over && !res.violation; ++guard) {
                    ctl.disarm(); for (auto& fl : p.faults) if (fl.kind == "throw" && fl.num("req", 0) == req && guard == 0) ctl.arm(std::max(1L, fl.num("nth", 1)), -1, fl.num("burst", 1));
                    long fb = ctl.firedThrow; Integrator::SuccessfulStepStatus st;
                    size_t logBefore = hlog.ev.size();
                    try { st = ts.stepTo(target); }
                    catch (const std::exception& e) { if (ctl.firedThrow > fb) { failedLegit = true; res.count("failed_legitimately"); } else { res.inconclusive = true; res.detail = std::string("TimeStepper::stepTo threw without fault: ") + e.what(); } over = true; break; }
                    ctl.disarm();
                    const double t = integ->getTime();
                    statuses.insert((int)st); key.mix((uint64_t)st); hash.mix((uint64_t)st); hash.mixd(t);
                    std::string ctx = " [TimeStepper " + std::string(Integrator::getSuccessfulStepStatusString(st).c_str()) + " t=" + S(t) + "]";
                    if (st == Integrator::ReachedEventTrigger) ++nTrig; if (st == Integrator::ReachedScheduledEvent) ++nSched;
                    if (terminated) { over = true; break; }
                    bool handlerRan = false; for (size_t k = logBefore; k < hlog.ev.size(); ++k) if (hlog.ev[k].kind <= 3) handlerRan = true;
                    if (st != Integrator::ReachedEventTrigger || handlerRan) { if (st != Integrator::ReachedEventTrigger) checkMissedStepper(roots, hlog, epochs.back().logBegin, epochStart, hmax, t, isig, ctx, res, S); checkZ(ts.getState(), ctx); }
                    if (st == Integrator::EndOfSimulation || integ->isSimulationOver()) { over = true; break; }
                    if (t >= target) break;
                }
            }
            epochs.back().logEnd = hlog.ev.size();
            if (!res.violation && !res.inconclusive && !failedLegit) checkHandlerLog(p, hlog, wits, roots, timeline, P, RP, T, epochs, integ->getTime(), terminated, termTime, termIndex, isig, hmax, accInUse * tscale, res, S, ik);
        }
        res.count("fault_eval_throw", ctl.firedThrow); res.count("fault_handler_set_state", firedSet); res.count("fault_handler_terminated", firedTerm);
        res.count("triggered_events", nTrig); res.count("scheduled_events", nSched);
        long nreq = 0; for (auto& rt : roots) if (rt.required) ++nreq; res.count("required_roots", nreq);
        res.simtime = integ->getAdvancedTime();
        res.nontrivial = nTrig >= 2 && (nSched >= 1 || !direct);
        res.key = key.h; res.hash = hash.h;
        return res;
    }

    template <class F>
    static void checkMissedStepper(std::vector<Root>& roots, const HLog& hlog, size_t logBegin, double epochStart, double hmax, double tret, const std::string& isig, const std::string& ctx, Result& res, F S) {
        // a triggered handler call at time th reports the root of its witness in (th - slack, th]
        for (size_t k = logBegin; k < hlog.ev.size(); ++k) { const HEvent& e = hlog.ev[k]; if (e.kind == 1) for (auto& rt : roots) if (rt.wit == e.id && rt.t <= e.t + 1e-9 && rt.t > e.t - 2 * hmax - 1e-6) rt.reported = true; }
        for (auto& rt : roots) if (rt.required && !rt.reported && rt.t >= epochStart + 6 * hmax && tret > rt.t + 1e-6 + 2 * hmax) {
            res.fail("event-missed", isig, "witness " + std::to_string(rt.wit) + " crosses zero at t=" + S(rt.t) + " and stays changed, but the stepper returned t=" + S(tret) + " without its handler having been called" + ctx);
            return; }
    }

    template <class F>
    static void checkHandlerLog(const Plan& p, const HLog& hlog, const std::vector<Wit>& wits, const std::vector<Root>& roots, const std::vector<double>& timeline, double P, double RP, double T,
                                const std::vector<Epoch>& epochs, double tEnd, bool terminated, double termTime, size_t termIndex, const std::string& isig, double hmax, double accTs, Result& res, F S, int ik) {
        // split the log by kind; times must be nondecreasing within each kind and overall for handlers
        std::vector<double> sched, per, rep; double lastHandler = -Infinity;
        for (size_t li = 0; li < hlog.ev.size(); ++li) {
            const HEvent& e = hlog.ev[li];
            for (auto& ep : epochs) if (ep.logBegin == li) lastHandler = -Infinity;    // a re-initialization may restart at an earlier time
            if (e.kind <= 3) { if (e.t < lastHandler) { res.fail("handlers-out-of-order", isig, "handler called at t=" + S(e.t) + " after one at t=" + S(lastHandler)); return; } lastHandler = e.t; }
            if (terminated && e.kind <= 3 && li >= termIndex && e.t > termTime) { res.fail("activity-after-termination", isig, "handler called at t=" + S(e.t) + " after termination was requested at t=" + S(termTime)); return; }
            if (e.kind == 2) sched.push_back(e.t); else if (e.kind == 3) per.push_back(e.t); else if (e.kind == 5) rep.push_back(e.t);
            if (e.kind == 1) {
                // triggered handler called at its localised time: a true root of a monitored direction lies in (t - width, t]
                const Wit& w = wits[e.id]; if (w.kind != 0) continue;
                double win = std::max((w.window > 0 ? w.window : 0.1) * accTs, 1e-12) + 1e-9; if (ik == 8) win = 2 * hmax;
                bool ok = false; for (auto& rt : roots) if (rt.wit == e.id && (rt.rising ? w.rise : w.fall) && rt.t <= e.t + 1e-9 && rt.t >= e.t - win) ok = true;
                if (!ok) { res.fail("triggered-handler-wrong-time", isig, "handler of witness " + std::to_string(e.id) + " called at t=" + S(e.t) + " but no monitored crossing lies within its localisation window before that time"); return; }
            }
        }
        // Expected call times per initialization epoch [a,b]: every event time t with a <= t < b exactly once, in order
        // (the one at a included: initialize() forgets what was handled before). An event exactly at b may or may not
        // have been handled before the re-initialization at b; an event at the time where the run stopped may be pending.
        const double limit = terminated ? termTime : std::min(tEnd, T);
        auto cmp = [&](int kind, const char* what, const std::function<void(double, double, std::vector<double>&)>& gen) {
            for (size_t k = 0; k < epochs.size() && !res.violation; ++k) {
                const Epoch& ep = epochs[k]; const bool last = k + 1 == epochs.size();
                std::vector<double> got; for (size_t i = ep.logBegin; i < ep.logEnd && i < hlog.ev.size(); ++i) if (hlog.ev[i].kind == kind) got.push_back(hlog.ev[i].t);
                std::vector<double> ex; gen(ep.a, last ? limit : ep.b, ex);     // times in [a, end], end inclusive
                const double end = last ? limit : ep.b;
                size_t n = std::min(got.size(), ex.size());
                for (size_t i = 0; i < n; ++i) if (got[i] != ex[i]) { res.fail(std::string(what) + "-wrong-time", isig, std::string(what) + " call #" + std::to_string(i) + " of initialization " + std::to_string(k) + " at t=" + S(got[i]) + " but its scheduled time is " + S(ex[i])); return; }
                if (got.size() > ex.size()) { res.fail(std::string(what) + "-extra-call", isig, std::string(what) + " called at t=" + S(got[ex.size()]) + " which is not one of its scheduled times (initialization " + std::to_string(k) + " starting at " + S(ep.a) + ")"); return; }
                if (got.size() < ex.size() && !(ex[got.size()] >= end)) { res.fail(std::string(what) + "-skipped", isig, std::string(what) + " never called for its scheduled time " + S(ex[got.size()]) + " (initialization " + std::to_string(k) + " covered [" + S(ep.a) + "," + S(end) + "])"); return; }
            }
        };
        if (!timeline.empty()) cmp(2, "scheduled-handler", [&](double a, double b, std::vector<double>& ex) { double last = -1; for (double t : timeline) if (t >= a && t <= b && t != last) { ex.push_back(t); last = t; } });
        if (res.violation) return;
        if (P > 0) cmp(3, "periodic-handler", [&](double a, double b, std::vector<double>& ex) { long long k = (long long)std::floor(a / P); while (k * P < a) ++k; for (; k * P <= b; ++k) ex.push_back(k * P); });
        if (res.violation) return;
        if (RP > 0) cmp(5, "periodic-reporter", [&](double a, double b, std::vector<double>& ex) { long long k = (long long)std::floor(a / RP); while (k * RP < a) ++k; for (; k * RP <= b; ++k) ex.push_back(k * RP); });
    }
};

int main(int argc, char** argv) { C22 e; return vf::engineMain(argc, argv, e); }
