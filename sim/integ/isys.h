// Engine I — shared pieces: an analytic harness System behind Simbody's own
// extension seam (System::Guts), evaluation-fault control, event handlers with
// closed-form witnesses, integrator factory.
#ifndef ISYS_H_
#define ISYS_H_
#include "SimTKmath.h"
#include "../common/common.h"
#include <memory>
#include <cmath>

namespace hi {
using namespace SimTK;

// ---- evaluation faults (buggify style, decided by the plan) ----
struct FaultCtl {
    long evals = 0;            // realizeAcceleration calls since the fault was armed
    long throwAt = -1;         // f1: the throwAt-th evaluation throws
    long nanAt = -1;           // f2: the nanAt-th evaluation returns NaN derivatives
    long burst = 1;            // number of consecutive evaluations affected
    long firedThrow = 0, firedNaN = 0;
    bool armed = false;
    void arm(long t, long n, long b) { evals = 0; throwAt = t; nanAt = n; burst = std::max(1L, b); armed = true; }
    void disarm() { armed = false; throwAt = nanAt = -1; }
};

struct Osc { double A, w, phi; double q(double t) const { return A * std::cos(w * t + phi); } double u(double t) const { return -A * w * std::sin(w * t + phi); } };
struct Zdef { double z0, k; double z(double t) const { return z0 * std::exp(-k * t); } };

class HSystem;
class HGuts : public System::Guts {
public:
    SubsystemIndex subsysIndex;
    std::vector<Osc> osc; std::vector<Zdef> zs;
    FaultCtl* ctl = nullptr;
    mutable long totalEvals = 0;
    HGuts() : Guts() {}
    HGuts* cloneImpl() const override { return new HGuts(*this); }
    int realizeTopologyImpl(State& s) const override {
        const int n = (int)osc.size(), nz = (int)zs.size();
        Vector q0(n), u0(n), z0(nz);
        for (int i = 0; i < n; ++i) { q0[i] = osc[i].q(0); u0[i] = osc[i].u(0); }
        for (int j = 0; j < nz; ++j) z0[j] = zs[j].z0;
        if (n) { s.allocateQ(subsysIndex, q0); s.allocateU(subsysIndex, u0); }
        if (nz) s.allocateZ(subsysIndex, z0);
        System::Guts::realizeTopologyImpl(s);
        return 0;
    }
    int realizeVelocityImpl(const State& s) const override {
        if (!osc.empty()) s.updQDot(subsysIndex) = s.getU(subsysIndex);
        System::Guts::realizeVelocityImpl(s);
        return 0;
    }
    int realizeAccelerationImpl(const State& s) const override {
        ++totalEvals;
        bool nan = false;
        if (ctl && ctl->armed) {
            long e = ++ctl->evals;
            if (ctl->throwAt > 0 && e >= ctl->throwAt && e < ctl->throwAt + ctl->burst) { ctl->firedThrow++; throw std::runtime_error("injected evaluation failure"); }
            if (ctl->nanAt > 0 && e >= ctl->nanAt && e < ctl->nanAt + ctl->burst) { ctl->firedNaN++; nan = true; }
        }
        const int n = (int)osc.size(), nz = (int)zs.size();
        if (n) {
            const Vector& q = s.getQ(subsysIndex); Vector& udot = s.updUDot(subsysIndex);
            for (int i = 0; i < n; ++i) udot[i] = -osc[i].w * osc[i].w * q[i];
            if (nan) udot[0] = NaN;
            s.updQDotDot(subsysIndex) = udot;
        }
        if (nz) {
            const Vector& z = s.getZ(subsysIndex); Vector& zdot = s.updZDot(subsysIndex);
            for (int j = 0; j < nz; ++j) zdot[j] = -zs[j].k * z[j];
            if (nan && !n) zdot[0] = NaN;
        }
        System::Guts::realizeAccelerationImpl(s);
        return 0;
    }
    void multiplyByNImpl(const State&, const Vector& u, Vector& dq) const override { dq = u; }
    void multiplyByNTransposeImpl(const State&, const Vector& fq, Vector& fu) const override { fu = fq; }
    void multiplyByNPInvImpl(const State&, const Vector& dq, Vector& u) const override { u = dq; }
    void multiplyByNPInvTransposeImpl(const State&, const Vector& fu, Vector& fq) const override { fq = fu; }
    bool prescribeQImpl(State&) const override { return false; }
    bool prescribeUImpl(State&) const override { return false; }
    void projectQImpl(State&, Vector&, const ProjectOptions&, ProjectResults& r) const override { r.clear(); r.setExitStatus(ProjectResults::Succeeded); }
    void projectUImpl(State&, Vector&, const ProjectOptions&, ProjectResults& r) const override { r.clear(); r.setExitStatus(ProjectResults::Succeeded); }
};

class HSystem : public System {
public:
    HSystem(const std::vector<Osc>& osc, const std::vector<Zdef>& zs, FaultCtl* ctl) : System() {
        HGuts* g = new HGuts(); g->osc = osc; g->zs = zs; g->ctl = ctl;
        adoptSystemGuts(g);
        DefaultSystemSubsystem defsub(*this);
        updGuts().subsysIndex = defsub.getMySubsystemIndex();
        setHasTimeAdvancedEvents(false);
    }
    const HGuts& getGuts() const { return dynamic_cast<const HGuts&>(getSystemGuts()); }
    HGuts& updGuts() { return dynamic_cast<HGuts&>(updSystemGuts()); }
    SubsystemIndex sub() const { return getGuts().subsysIndex; }
};

// ---- integrator factory ----
static const char* const IntegNames[] = {"ExplicitEuler", "RungeKutta2", "RungeKutta3", "RungeKuttaMerson", "RungeKuttaFeldberg", "Verlet", "SemiExplicitEuler", "SemiExplicitEuler2", "CPodes"};
enum { NINTEG = 9 };
inline Integrator* makeIntegrator(int k, const System& sys, double fixedStep) {
    switch (k) {
    case 0: return new ExplicitEulerIntegrator(sys);
    case 1: return new RungeKutta2Integrator(sys);
    case 2: return new RungeKutta3Integrator(sys);
    case 3: return new RungeKuttaMersonIntegrator(sys);
    case 4: return new RungeKuttaFeldbergIntegrator(sys);
    case 5: return new VerletIntegrator(sys);
    case 6: return new SemiExplicitEulerIntegrator(sys, fixedStep > 0 ? fixedStep : 0.01);
    case 7: return new SemiExplicitEuler2Integrator(sys);
    default: return new CPodesIntegrator(sys, CPodes::BDF, CPodes::Newton);
    }
}

// ---- handler log ----
struct HEvent { int kind; int id; double t; double aux; };   // kind: 1 triggered, 2 scheduled, 3 periodic handler, 4 reporter, 5 periodic reporter
struct HLog { std::vector<HEvent> ev; };

// witness of time: sin(w t + phi) - c   (exact roots)
struct TimeWitness { double w, phi, c; double val(double t) const { return std::sin(w * t + phi) - c; } double dval(double t) const { return w * std::cos(w * t + phi); } };

class TrigHandler : public TriggeredEventHandler {
public:
    TrigHandler(int id, Stage st, std::function<Real(const State&)> f, HLog* log, bool rising, bool falling, double window)
        : TriggeredEventHandler(st), id(id), f(f), log(log) {
        getTriggerInfo().setTriggerOnRisingSignTransition(rising).setTriggerOnFallingSignTransition(falling);
        if (window > 0) getTriggerInfo().setRequiredLocalizationTimeWindow(window);
    }
    Real getValue(const State& s) const override { return f(s); }
    void handleEvent(State& s, Real, bool& shouldTerminate) const override {
        shouldTerminate = false;      // every harness handler states its own answer explicitly; only its action may ask for termination
        log->ev.push_back({1, id, s.getTime(), f(s)});
        if (action) action(s, shouldTerminate);
    }
    std::function<void(State&, bool&)> action;
    int id; std::function<Real(const State&)> f; HLog* log;
};

class TimelineHandler : public ScheduledEventHandler {
public:
    TimelineHandler(int id, const std::vector<double>& times, HLog* log) : id(id), times(times), log(log) {}
    Real getNextEventTime(const State& s, bool includeCurrent) const override {
        for (double t : times) if (t > s.getTime() || (includeCurrent && t == s.getTime())) return t;
        return Infinity;
    }
    void handleEvent(State& s, Real, bool& shouldTerminate) const override {
        shouldTerminate = false;
        log->ev.push_back({2, id, s.getTime(), 0});
        if (action) action(s, shouldTerminate);
    }
    std::function<void(State&, bool&)> action;
    int id; std::vector<double> times; HLog* log;
};

class PerHandler : public PeriodicEventHandler {
public:
    PerHandler(int id, double interval, HLog* log) : PeriodicEventHandler(interval), id(id), log(log) {}
    void handleEvent(State& s, Real, bool& shouldTerminate) const override { shouldTerminate = false; log->ev.push_back({3, id, s.getTime(), 0}); if (action) action(s, shouldTerminate); }
    std::function<void(State&, bool&)> action;
    int id; HLog* log;
};
class PerReporter : public PeriodicEventReporter {
public:
    PerReporter(int id, double interval, HLog* log) : PeriodicEventReporter(interval), id(id), log(log) {}
    void handleEvent(const State& s) const override { log->ev.push_back({5, id, s.getTime(), 0}); if (probe) probe(s); }
    std::function<void(const State&)> probe;
    int id; HLog* log;
};

inline uint64_t bits(double d) { uint64_t v; std::memcpy(&v, &d, 8); return v; }

} // namespace hi
#endif
