// Common machinery for all engines: PRNG, plan files (= replay files), result
// lines, worker main loop. Header-only, no dependency on Simbody.
#ifndef VERIF_COMMON_H_
#define VERIF_COMMON_H_
#include <cstdint>
#include <cstdio>
#include <cstdlib>
#include <cstring>
#include <cmath>
#include <string>
#include <vector>
#include <map>
#include <sstream>
#include <fstream>
#include <iostream>
#include <functional>
#include <exception>
#include <unistd.h>
#include <sched.h>
#include <time.h>

// sanitizer defaults for every harness: distinct exit code, no leak checking, stop at the first report, print stacks
extern "C" __attribute__((used, visibility("default"))) const char* __tsan_default_options() {
    return "exitcode=77:halt_on_error=1:report_signal_unsafe=0:history_size=4:second_deadlock_stack=1";
}
extern "C" __attribute__((used, visibility("default"))) const char* __asan_default_options() {
    return "exitcode=77:detect_leaks=0:abort_on_error=0:halt_on_error=1";
}
extern "C" __attribute__((used, visibility("default"))) const char* __ubsan_default_options() {
    return "exitcode=77:halt_on_error=1:print_stacktrace=1";
}

namespace vf {

// ---------------------------------------------------------------- PRNG
inline uint64_t splitmix64(uint64_t& x) {
    uint64_t z = (x += 0x9e3779b97f4a7c15ULL);
    z = (z ^ (z >> 30)) * 0xbf58476d1ce4e5b9ULL;
    z = (z ^ (z >> 27)) * 0x94d049bb133111ebULL;
    return z ^ (z >> 31);
}
inline uint64_t mixseed(uint64_t base, uint64_t a, uint64_t b) {
    uint64_t x = base * 0x9e3779b97f4a7c15ULL ^ (a + 0x632be59bd9b4e019ULL);
    uint64_t r = splitmix64(x); x ^= b * 0xd1342543de82ef95ULL; r ^= splitmix64(x);
    return splitmix64(r);
}
struct Rng {
    uint64_t s[4];
    explicit Rng(uint64_t seed = 1) { reseed(seed); }
    void reseed(uint64_t seed) { for (int i = 0; i < 4; ++i) s[i] = splitmix64(seed); }
    static uint64_t rotl(uint64_t x, int k) { return (x << k) | (x >> (64 - k)); }
    uint64_t next() {
        uint64_t r = rotl(s[1] * 5, 7) * 9, t = s[1] << 17;
        s[2] ^= s[0]; s[3] ^= s[1]; s[1] ^= s[2]; s[0] ^= s[3]; s[2] ^= t; s[3] = rotl(s[3], 45);
        return r;
    }
    uint64_t below(uint64_t n) { return n ? next() % n : 0; }
    int range(int lo, int hi) { return lo + (int)below((uint64_t)(hi - lo + 1)); }   // inclusive
    double uni() { return (next() >> 11) * (1.0 / 9007199254740992.0); }
    double uni(double a, double b) { return a + (b - a) * uni(); }
    bool chance(double p) { return uni() < p; }
    template <class T> const T& pick(const std::vector<T>& v) { return v[below(v.size())]; }
    // small-biased integer in [lo,hi]
    int smallBiased(int lo, int hi) {
        double u = uni(); u = u * u * u;
        return lo + (int)std::floor(u * (hi - lo + 1 - 1e-9));
    }
};

// ---------------------------------------------------------------- hashing
struct Hash {
    uint64_t h = 0xcbf29ce484222325ULL;
    void mix(uint64_t v) { for (int i = 0; i < 8; ++i) { h ^= (v >> (8 * i)) & 0xff; h *= 0x100000001b3ULL; } }
    void mixd(double d) { uint64_t v; std::memcpy(&v, &d, 8); mix(v); }
    void mixs(const std::string& s) { for (unsigned char c : s) { h ^= c; h *= 0x100000001b3ULL; } mix(s.size()); }
};

// ---------------------------------------------------------------- plan = replay file
// Text, line oriented:
//   property C33
//   seed 1234
//   class <violation class>            (written on failure)
//   config <key> <value>
//   op <kind> k=v k=v ...
//   fault <kind> k=v ...
// Every index in an op/fault is interpreted modulo what exists when it is
// executed, so deleting lines keeps a plan valid (needed by minimisation).
struct Op {
    std::string kind;
    std::vector<std::pair<std::string, std::string>> kv;
    bool has(const std::string& k) const { for (auto& p : kv) if (p.first == k) return true; return false; }
    std::string str(const std::string& k, const std::string& d = "") const { for (auto& p : kv) if (p.first == k) return p.second; return d; }
    long num(const std::string& k, long d = 0) const { for (auto& p : kv) if (p.first == k) return std::strtol(p.second.c_str(), 0, 10); return d; }
    double real(const std::string& k, double d = 0) const { for (auto& p : kv) if (p.first == k) return std::strtod(p.second.c_str(), 0); return d; }
    Op& set(const std::string& k, const std::string& v) { for (auto& p : kv) if (p.first == k) { p.second = v; return *this; } kv.emplace_back(k, v); return *this; }
    Op& set(const std::string& k, long v) { return set(k, std::to_string(v)); }
    Op& set(const std::string& k, int v) { return set(k, std::to_string(v)); }
    Op& setr(const std::string& k, double v) { char b[64]; std::snprintf(b, sizeof b, "%.17g", v); return set(k, std::string(b)); }
    std::string line() const { std::string s = kind; for (auto& p : kv) s += " " + p.first + "=" + p.second; return s; }
};
inline Op mkop(const std::string& kind) { Op o; o.kind = kind; return o; }

struct Plan {
    std::string property;
    uint64_t seed = 0;
    std::string vclass;                       // violation class (when saved after a failure)
    std::vector<std::pair<std::string, std::string>> config;
    std::vector<Op> ops;
    std::vector<Op> faults;
    std::vector<std::string> comments;

    std::string cfg(const std::string& k, const std::string& d = "") const { for (auto& p : config) if (p.first == k) return p.second; return d; }
    long cfgn(const std::string& k, long d = 0) const { for (auto& p : config) if (p.first == k) return std::strtol(p.second.c_str(), 0, 10); return d; }
    double cfgr(const std::string& k, double d = 0) const { for (auto& p : config) if (p.first == k) return std::strtod(p.second.c_str(), 0); return d; }
    bool hascfg(const std::string& k) const { for (auto& p : config) if (p.first == k) return true; return false; }
    void setcfg(const std::string& k, const std::string& v) { for (auto& p : config) if (p.first == k) { p.second = v; return; } config.emplace_back(k, v); }
    void setcfg(const std::string& k, long v) { setcfg(k, std::to_string(v)); }
    void setcfg(const std::string& k, int v) { setcfg(k, std::to_string(v)); }
    void setcfg(const std::string& k, uint64_t v) { setcfg(k, std::to_string(v)); }
    void setcfgr(const std::string& k, double v) { char b[64]; std::snprintf(b, sizeof b, "%.17g", v); setcfg(k, std::string(b)); }

    std::string text() const {
        std::ostringstream o;
        o << "property " << property << "\nseed " << seed << "\n";
        if (!vclass.empty()) o << "class " << vclass << "\n";
        for (auto& c : comments) o << "# " << c << "\n";
        for (auto& p : config) o << "config " << p.first << " " << p.second << "\n";
        for (auto& op : ops) o << "op " << op.line() << "\n";
        for (auto& f : faults) o << "fault " << f.line() << "\n";
        return o.str();
    }
    static Op parseOp(std::istringstream& is) {
        Op op; is >> op.kind; std::string tok;
        while (is >> tok) { auto e = tok.find('='); if (e == std::string::npos) op.kv.emplace_back(tok, ""); else op.kv.emplace_back(tok.substr(0, e), tok.substr(e + 1)); }
        return op;
    }
    static bool parse(std::istream& in, Plan& p) {
        std::string line;
        while (std::getline(in, line)) {
            if (line.empty() || line[0] == '#') continue;
            std::istringstream is(line); std::string w; is >> w;
            if (w == "property") is >> p.property;
            else if (w == "seed") is >> p.seed;
            else if (w == "class") { std::string rest; std::getline(is, rest); size_t a = rest.find_first_not_of(' '); p.vclass = a == std::string::npos ? "" : rest.substr(a); }
            else if (w == "config") { std::string k, v; is >> k; std::getline(is, v); size_t a = v.find_first_not_of(' '); p.config.emplace_back(k, a == std::string::npos ? "" : v.substr(a)); }
            else if (w == "op") p.ops.push_back(parseOp(is));
            else if (w == "fault") p.faults.push_back(parseOp(is));
            else return false;
        }
        return true;
    }
};

// ---------------------------------------------------------------- result of one run
struct Result {
    bool violation = false;
    bool inconclusive = false;         // run could not decide (never a violation)
    std::string vclass;                // stable class name, used by minimisation and known-findings
    std::string signature;             // structural signature for known_findings.json matching
    std::string detail;
    uint64_t hash = 0;                 // event-log hash (determinism gate)
    bool nontrivial = false;
    uint64_t key = 0;                  // hash deciding "distinct"
    double simtime = 0;                // simulated time / steps covered
    std::map<std::string, long> counters;   // probes, faults fired, ...
    void fail(const std::string& cls, const std::string& sig, const std::string& det) {
        if (violation) return;         // keep the first
        violation = true; vclass = cls; signature = sig; detail = det;
    }
    void count(const std::string& k, long n = 1) { counters[k] += n; }
};

inline std::string sanitize(std::string s) {
    for (char& c : s) if (c == '\n' || c == '\r' || c == '\t') c = ' ';
    if (s.size() > 1500) s.resize(1500);
    return s;
}

struct Engine {
    virtual ~Engine() {}
    virtual const char* property() const = 0;
    virtual Plan generate(uint64_t seed, const std::string& tier, const std::string& mode) = 0;
    virtual Result execute(const Plan& plan) = 0;
    virtual void warmup() {}
};

// Current-run context so that fatal paths (terminate, simulator deadlock) can
// still print a result line.
struct RunCtx { long idx = -1; uint64_t seed = 0; const Plan* plan = nullptr; std::string replayDir; bool replayMode = false; std::string property; };
inline RunCtx& ctx() { static RunCtx c; return c; }

inline std::string savePlan(const Plan& plan, const std::string& cls, const std::string& dir) {
    Plan p = plan; p.vclass = cls;
    std::string path = dir + "/" + plan.property + "-" + std::to_string(plan.seed) + ".plan";
    std::ofstream f(path); f << p.text(); f.close();
    return path;
}

inline void printViolation(long idx, uint64_t seed, const Result& r, const std::string& path) {
    std::printf("V idx=%ld seed=%llu cls=%s hash=%016llx path=%s sig=%s | %s\n", idx, (unsigned long long)seed, r.vclass.c_str(),
                (unsigned long long)r.hash, path.c_str(), sanitize(r.signature).c_str(), sanitize(r.detail).c_str());
    std::fflush(stdout);
}

// Called from fatal paths inside a run (never returns).
[[noreturn]] inline void fatalViolation(const std::string& cls, const std::string& detail, int code = 71) {
    RunCtx& c = ctx();
    Result r; r.violation = true; r.vclass = cls; r.signature = cls; r.detail = detail;
    std::string path = "-";
    if (c.plan && !c.replayMode) path = savePlan(*c.plan, cls, c.replayDir);
    if (c.replayMode) { std::printf("REPLAY st=viol cls=%s hash=%016llx sig=%s | %s\n", cls.c_str(), 0ULL, cls.c_str(), sanitize(detail).c_str()); }
    else printViolation(c.idx, c.seed, r, path);
    std::fflush(stdout);
    _exit(code);
}

inline int engineMain(int argc, char** argv, Engine& eng) {
    // a thread pool inside a dependency is nondeterminism the simulator does not own
    if (!getenv("OPENBLAS_NUM_THREADS")) { setenv("OPENBLAS_NUM_THREADS", "1", 1); execv("/proc/self/exe", argv); }
    std::map<std::string, std::string> a;
    std::string cmd = argc > 1 ? argv[1] : "";
    for (int i = 2; i + 1 < argc; i += 2) a[argv[i]] = argv[i + 1];
    auto get = [&](const std::string& k, const std::string& d) { return a.count(k) ? a[k] : d; };
    std::string tier = get("--tier", "quick"), mode = get("--mode", "");
    ctx().replayDir = get("--replay-dir", "/verif/out/replays");
    ctx().property = eng.property();
    std::set_terminate([] {
        std::string what = "terminate";
        if (auto e = std::current_exception()) { try { std::rethrow_exception(e); } catch (const std::exception& ex) { what = ex.what(); } catch (...) { what = "unknown exception"; } }
        fatalViolation("harness-terminate", what, 72);
    });
    setvbuf(stdout, nullptr, _IOLBF, 0);
    if (a.count("--cpu")) {   // all threads of this worker on one core: the simulator runs one thread at a time anyway
        cpu_set_t set; CPU_ZERO(&set); CPU_SET(std::atoi(a["--cpu"].c_str()) % (int)sysconf(_SC_NPROCESSORS_CONF), &set);
        sched_setaffinity(0, sizeof set, &set);
    }
    if (cmd == "gen") {
        uint64_t seed = std::strtoull(get("--seed", "1").c_str(), 0, 10);
        std::fputs(eng.generate(seed, tier, mode).text().c_str(), stdout);
        return 0;
    }
    if (cmd == "replay") {
        std::ifstream f(get("--file", "")); Plan p;
        if (!f || !Plan::parse(f, p)) { std::fprintf(stderr, "cannot parse plan\n"); return 2; }
        eng.warmup();
        ctx().replayMode = true; ctx().plan = &p; ctx().seed = p.seed; ctx().idx = 0;
        Result r = eng.execute(p);
        std::printf("REPLAY st=%s cls=%s hash=%016llx sig=%s | %s\n", r.violation ? "viol" : (r.inconclusive ? "incon" : "ok"),
                    r.violation ? r.vclass.c_str() : "-", (unsigned long long)r.hash, r.violation ? sanitize(r.signature).c_str() : "-", sanitize(r.detail).c_str());
        for (auto& kv : r.counters) std::printf("C %s %ld\n", kv.first.c_str(), kv.second);
        std::fflush(stdout);
        return r.violation ? 1 : 0;
    }
    if (cmd == "run") {
        uint64_t base = std::strtoull(get("--seed", "1").c_str(), 0, 10);
        long start = std::strtol(get("--start", "0").c_str(), 0, 10), stride = std::strtol(get("--stride", "1").c_str(), 0, 10);
        long count = std::strtol(get("--count", "100").c_str(), 0, 10);
        double tlimit = std::strtod(get("--time", "1e9").c_str(), 0);
        long nsamples = std::strtol(get("--samples", "0").c_str(), 0, 10);
        bool perrun = get("--per-run", "1") == "1";
        eng.warmup();
        struct timespec t0; clock_gettime(CLOCK_MONOTONIC, &t0);   // wall clock used ONLY to stop a batch, never inside a run
        std::map<std::string, long> tot; double simtime = 0; long done = 0, nviol = 0, nincon = 0;
        for (long i = start; done < count; i += stride, ++done) {
            uint64_t seed = mixseed(base, (uint64_t)std::atoi(eng.property() + 1), (uint64_t)i);
            Plan plan = eng.generate(seed, tier, mode);
            ctx().idx = i; ctx().seed = seed; ctx().plan = &plan;
            if (done < nsamples) { std::string t = plan.text(); std::printf("SAMPLE idx=%ld %s\n", i, [&] { std::string s; for (char c : t) s += (c == '\n' ? std::string("\\n") : std::string(1, c)); return s; }().c_str()); }
            Result r = eng.execute(plan);
            ctx().plan = nullptr;
            for (auto& kv : r.counters) tot[kv.first] += kv.second;
            simtime += r.simtime;
            if (r.inconclusive) { nincon++; std::printf("I idx=%ld seed=%llu | %s\n", i, (unsigned long long)seed, sanitize(r.detail).c_str()); }
            if (r.violation) { nviol++;
                // every violation is reported; the plan file is written for the first 25 of each (class, signature) per worker (the driver
                // replays a handful per group, and a listed finding can otherwise leave hundreds of thousands of files behind)
                static std::map<std::string, int> saved; int& n = saved[r.vclass + "|" + r.signature];
                printViolation(i, seed, r, ++n <= 25 ? savePlan(plan, r.vclass, ctx().replayDir) : std::string("-")); }
            if (perrun) std::printf("r %ld %016llx %d %016llx\n", i, (unsigned long long)r.hash, r.nontrivial ? 1 : 0, (unsigned long long)r.key);
            {   // the batch's wall-clock budget (outside every simulated run); cheap enough to read after each run
                struct timespec t1; clock_gettime(CLOCK_MONOTONIC, &t1);
                if ((t1.tv_sec - t0.tv_sec) + 1e-9 * (t1.tv_nsec - t0.tv_nsec) > tlimit) { ++done; break; }
            }
        }
        std::printf("S runs=%ld viol=%ld incon=%ld simtime=%.9g", done, nviol, nincon, simtime);
        for (auto& kv : tot) std::printf(" %s=%ld", kv.first.c_str(), kv.second);
        std::printf("\n"); std::fflush(stdout);
        return 0;
    }
    std::fprintf(stderr, "usage: %s gen|replay|run ...\n", argv[0]);
    return 2;
}

} // namespace vf
#endif
