// C46 — simulation is deterministic and isolated.
// Several whole simulations ("tasks": a random multibody model with contact, constraints and
// event handlers + one of the nine integrators) and unrelated library calls ("noise") run in one
// process under a seeded scheduler: first each task alone (reference), then again interleaved at
// API granularity and RE-ENTRANTLY (a force or handler callback of one task runs steps of another
// task or a noise call before it returns), with the heap perturbed between the two phases and a
// callback fault that makes one task fail and be destroyed mid-step. Every returned state of
// every surviving task must equal its solo run bit for bit.
#include "Simbody.h"
#include "../common/common.h"
#include "../integ/isys.h"
#include <malloc.h>
#include <memory>
using namespace SimTK;
using vf::Plan; using vf::Op; using vf::Result; using vf::Rng;

// ---- the process clock is simulated: clock() and time() (read by CMA-ES and the L-BFGS-B timer) resolve to these
// definitions from every library, advance by a seeded step per reading and jump at a seeded reading, so no
// result can depend on real time and a replay sees exactly the same readings
static long g_clockNow = 0, g_clockStep = 1000, g_clockReads = 0, g_clockJumpAt = -1, g_clockJump = 0;
extern "C" clock_t clock(void) noexcept { if (++g_clockReads == g_clockJumpAt) g_clockNow += g_clockJump; g_clockNow += g_clockStep; return (clock_t)g_clockNow; }
extern "C" time_t time(time_t* t) noexcept { time_t v = (time_t)(1600000000L + clock() / CLOCKS_PER_SEC); if (t) *t = v; return v; }

struct Sched;
static Sched* g_sched = nullptr;
enum { SITE_FORCE = 0, SITE_HANDLER = 1, SITE_REPORTER = 2 };
static void hookCallback(int task, int site);

class HookForce : public Force::Custom::Implementation {
public:
    HookForce(int task, uint64_t seed, int nb) : task(task), seed(seed), nb(nb) {}
    void calcForce(const State& s, Vector_<SpatialVec>& bf, Vector_<Vec3>&, Vector& mf) const override {
        if (++evals > 8000 || ++total > 30000) throw std::runtime_error("evaluation budget of this task exhausted");   // a collapsed step size fails the task, alone and under any schedule alike
        Rng r(seed); const double t = s.getTime();
        // accumulate a little before and a little after the callback: a re-entrant evaluation that
        // clobbers the arrays this element is accumulating into is then visible either way
        if (mf.size()) mf[(int)r.below(mf.size())] += 0.3 * std::sin(2 * t);
        const int szb = bf.size(), szm = mf.size();
        hookCallback(task, SITE_FORCE);
        if (getenv("VERIF_DEBUG") && (bf.size() != szb || mf.size() != szm)) std::fprintf(stderr, "accumulator arrays of task %d resized under the force element: bodies %d -> %d, mobilities %d -> %d\n", task, szb, bf.size(), szm, mf.size());
        int b = 1 + (int)r.below(nb); bf[b] += SpatialVec(Vec3(0.05, 0, -0.02), Vec3(0.4 * std::cos(t), 0.1, 0.2));
    }
    Real calcPotentialEnergy(const State&) const override { return 0; }
    int task; uint64_t seed; int nb; mutable long evals = 0, total = 0;
};
class HookHandler : public PeriodicEventHandler {
public:
    HookHandler(int task, Real period) : PeriodicEventHandler(period), task(task) {}
    void handleEvent(State& s, Real, bool&) const override { hookCallback(task, SITE_HANDLER); if (s.getNU()) { s.updU()[0] *= 0.98; } }
    int task;
};
class HookReporter : public PeriodicEventReporter {
public:
    HookReporter(int task, Real period, std::vector<uint64_t>* log) : PeriodicEventReporter(period), task(task), log(log) {}
    void handleEvent(const State& s) const override { hookCallback(task, SITE_REPORTER); log->push_back(hi::bits(s.getTime())); }
    int task; std::vector<uint64_t>* log;
};

struct Recipe { uint64_t seed; int integ; double accuracy, dt; int nsteps; bool stepper, mesh, cons; int contact; bool pres; };   // contact: 0 compliant (tracker subsystem), 1 GeneralContactSubsystem + HuntCrossleyForce (convex pairs)

struct SimTask {
    int id; Recipe rc;
    MultibodySystem sys; SimbodyMatterSubsystem matter; GeneralForceSubsystem forces; ContactTrackerSubsystem tracker; CompliantContactSubsystem contact; GeneralContactSubsystem gcs; Force::Gravity gravity;
    std::unique_ptr<Integrator> integ; std::unique_ptr<TimeStepper> ts; std::vector<uint64_t> replog;
    int done = 0; std::vector<uint64_t> digest; HookForce* hook = nullptr; State init0;
    SimTask(int id, const Recipe& rc) : id(id), rc(rc), matter(sys), forces(sys), tracker(sys), contact(sys, tracker), gcs(sys), gravity(forces, matter, -YAxis, 9.8) { build(); }
    void build() {
        Rng r(rc.seed);
        forces.setNumberOfThreads(1);                       // the statement is about single-threaded force evaluation
        contact.setTransitionVelocity(0.05);
        ContactMaterial mat(1e5, 0.3, 0.6, 0.5, 0.1);
        const bool general = rc.contact == 1; ContactSetIndex set; std::vector<int> surfaces;
        if (general) { set = gcs.createContactSet(); gcs.addBody(set, matter.updGround(), ContactGeometry::Ellipsoid(Vec3(r.uni(1.5, 3), 0.5, r.uni(1.5, 3))), Transform(Vec3(0, -0.5, 0))); }
        else matter.Ground().updBody().addContactSurface(Transform(Rotation(-Pi / 2, ZAxis), Vec3(0)), ContactSurface(ContactGeometry::HalfSpace(), mat));
        std::vector<MobilizedBody> mob; mob.push_back(matter.updGround());
        int nb = r.range(1, 4);
        for (int b = 0; b < nb; ++b) {
            double rad = r.uni(0.1, 0.3);
            Body::Rigid body(MassProperties(r.uni(0.5, 2), Vec3(0), Inertia(r.uni(0.05, 0.2), r.uni(0.05, 0.2), r.uni(0.05, 0.2))));
            if (!general) {
                if (rc.mesh && b == 0) { PolygonalMesh pm = PolygonalMesh::createSphereMesh(rad, 1); ContactGeometry::TriangleMesh tm(pm); body.addContactSurface(Transform(), ContactSurface(tm, mat, 0.05)); }
                else if (r.chance(0.3)) body.addContactSurface(Transform(), ContactSurface(ContactGeometry::Ellipsoid(Vec3(rad, 0.7 * rad, 1.2 * rad)), mat));
                else body.addContactSurface(Transform(), ContactSurface(ContactGeometry::Sphere(rad), mat));
            }
            int par = (int)r.below(mob.size()); int t = (int)r.below(12);
            Transform Xp(Vec3(r.uni(-0.3, 0.3), par == 0 ? rad + r.uni(-0.02, 0.3) : r.uni(0.2, 0.5), r.uni(-0.3, 0.3)));
            const Transform Xb(Vec3(0, -0.35, 0));
            if (par == 0) {     // a root body that can fall onto the ground surface
                if (t < 6) mob.push_back(MobilizedBody::Free(mob[par], Xp, body, Transform()));
                else if (t < 8) mob.push_back(MobilizedBody::FreeLine(mob[par], Xp, body, Transform()));
                else if (t < 10) mob.push_back(MobilizedBody::Bushing(mob[par], Xp, body, Transform()));
                else mob.push_back(MobilizedBody::Translation(mob[par], Xp, body, Transform()));
            } else switch (t) {
                case 0: case 1: mob.push_back(MobilizedBody::Ball(mob[par], Xp, body, Xb)); break;
                case 2: case 3: mob.push_back(MobilizedBody::Pin(mob[par], Xp, body, Xb)); break;
                case 4: mob.push_back(MobilizedBody::Slider(mob[par], Xp, body, Xb)); break;
                case 5: mob.push_back(MobilizedBody::Universal(mob[par], Xp, body, Xb)); break;
                case 6: mob.push_back(MobilizedBody::Gimbal(mob[par], Xp, body, Xb)); break;
                case 7: case 8: mob.push_back(MobilizedBody::LineOrientation(mob[par], Xp, body, Xb)); break;
                case 9: mob.push_back(MobilizedBody::Cylinder(mob[par], Xp, body, Xb)); break;
                case 10: mob.push_back(MobilizedBody::Ellipsoid(mob[par], Xp, body, Xb, Vec3(0.2, 0.3, 0.25))); break;
                default: mob.push_back(MobilizedBody::Free(mob[par], Xp, body, Xb)); break;
            }
            if (general) { if (r.chance(0.6)) gcs.addBody(set, mob.back(), ContactGeometry::Ellipsoid(Vec3(rad, 0.7 * rad, 1.3 * rad)), Transform()); else gcs.addBody(set, mob.back(), ContactGeometry::Sphere(rad), Transform()); }
        }
        if (general) { HuntCrossleyForce hc(forces, gcs, set); for (int i = 0; i <= nb; ++i) hc.setBodyParameters(ContactSurfaceIndex(i), 1e5, 0.5, 0.6, 0.4, 0.1); hc.setTransitionVelocity(0.05); }
        int presBody = -1;
        if (rc.pres) {   // a position-level prescribed motion on the first single-coordinate mobilizer, else a lock applied to the initial state below
            for (int b = 1; b <= nb && presBody < 0; ++b) if (MobilizedBody::Pin::isInstanceOf(mob[b]) || MobilizedBody::Slider::isInstanceOf(mob[b])) { Motion::Sinusoid(mob[b], Motion::Position, 0.2, 2.0, 0.1); presBody = b; } }
        if (rc.cons && nb >= 2) {   // a rod whose length is the distance in the default configuration, so the model assembles
            sys.realizeTopology(); State s0 = sys.getDefaultState(); sys.realize(s0, Stage::Position);
            Real d = (mob[1].findStationLocationInGround(s0, Vec3(0)) - mob[2].findStationLocationInGround(s0, Vec3(0.1, 0, 0))).norm();
            if (d > 0.05) Constraint::Rod(mob[1], Vec3(0), mob[2], Vec3(0.1, 0, 0), d); }
        Force::GlobalDamper(forces, matter, r.uni(0.05, 0.5));
        if (r.chance(0.5)) Force::TwoPointLinearSpring(forces, mob[0], Vec3(0, 1, 0), mob[1], Vec3(0), r.uni(5, 30), r.uni(0.3, 0.8));
        hook = new HookForce(id, rc.seed ^ 0x77, nb); Force::Custom(forces, hook);
        if (rc.stepper) { sys.addEventHandler(new HookHandler(id, rc.dt * r.pick(std::vector<double>{1.0, 1.5, 2.5}))); sys.addEventReporter(new HookReporter(id, rc.dt * r.pick(std::vector<double>{0.5, 1.0, 3.0}), &replog)); }
        sys.realizeTopology(); State s = sys.getDefaultState();
        if (r.chance(0.4)) { matter.setUseEulerAngles(s, true); }
        sys.realizeModel(s);
        Vector u(s.getNU()); for (int i = 0; i < u.size(); ++i) u[i] = r.uni(-1, 1); s.updU() = u;
        if (rc.pres && presBody < 0) mob[nb].lock(s, Motion::Position);
        integ.reset(hi::makeIntegrator(rc.integ, sys, 0.002)); integ->setAccuracy(rc.accuracy);
        if (rc.integ == 0) integ->setMaximumStepSize(0.005);
        init0 = s;
        if (rc.stepper) { ts.reset(new TimeStepper(sys, *integ)); ts->initialize(s); } else integ->initialize(s);
        record((uint64_t)Integrator::StartOfContinuousInterval);
    }
    // the same System, Integrator and TimeStepper objects are used for the same simulation again, from the same initial state
    void restart() { done = 0; digest.clear(); replog.clear(); if (hook) hook->total = 0; if (ts) ts->initialize(init0); else integ->initialize(init0); record((uint64_t)Integrator::StartOfContinuousInterval); }
    void record(uint64_t status) {
        const State& s = integ->getState(); sys.realize(s, Stage::Acceleration);
        vf::Hash h; h.mix(status); h.mixd(s.getTime());
        const Vector& y = s.getY(); for (int i = 0; i < y.size(); ++i) h.mixd(y[i]);
        const Vector& yd = s.getYDot(); for (int i = 0; i < yd.size(); ++i) h.mixd(yd[i]);
        const Vector& mu = s.getMultipliers(); for (int i = 0; i < mu.size(); ++i) h.mixd(mu[i]);
        const Vector_<SpatialVec>& F = sys.getRigidBodyForces(s, Stage::Dynamics); for (int b = 0; b < F.size(); ++b) for (int a = 0; a < 2; ++a) for (int i = 0; i < 3; ++i) h.mixd(F[b][a][i]);
        h.mix(replog.size()); if (!replog.empty()) h.mix(replog.back());
        digest.push_back(h.h);
    }
    // one request: advance to the next report time (returns after every integrator return)
    void step() {
        const double target = (done + 1) * rc.dt; hook->evals = 0;    // a step that needs more than 8000 evaluations, or a task that needs more than 30000, fails (collapsed step size), alone and under any schedule alike
        if (ts) { Integrator::SuccessfulStepStatus st = ts->stepTo(target); record((uint64_t)st); }
        else { for (int guard = 0; guard < 10000; ++guard) { Integrator::SuccessfulStepStatus st = integ->stepTo(target, Infinity); record((uint64_t)st); if (integ->getTime() >= target || st == Integrator::EndOfSimulation) break; } }
        ++done;
    }
};

// ---- unrelated library calls with a result digest
class QuadSys : public OptimizerSystem {
public:
    QuadSys(int n, uint64_t seed) : OptimizerSystem(n), c(n), w(n) { Rng r(seed); for (int i = 0; i < n; ++i) { c[i] = r.uni(-2, 2); w[i] = r.uni(0.5, 3); } Vector lo(n, -5.0), hi(n, 5.0); setParameterLimits(lo, hi); }
    int objectiveFunc(const Vector& x, bool, Real& f) const override { f = 0; for (int i = 0; i < x.size(); ++i) f += w[i] * square(x[i] - c[i]) + 0.1 * std::pow(x[i] - c[i], 4); return 0; }
    int gradientFunc(const Vector& x, bool, Vector& g) const override { for (int i = 0; i < x.size(); ++i) g[i] = 2 * w[i] * (x[i] - c[i]) + 0.4 * std::pow(x[i] - c[i], 3); return 0; }
    Vector c, w;
};
static uint64_t noise(int kind, uint64_t seed) {
    vf::Hash h; Rng r(seed);
    switch (kind % 9) {
    case 0: { Random::Gaussian g(0, 1); g.setSeed((int)(seed % 100000)); for (int i = 0; i < 50; ++i) h.mixd(g.getValue()); Random::Uniform u(0, 1); u.setSeed((int)(seed % 7777)); for (int i = 0; i < 20; ++i) h.mixd(u.getValue()); break; }
    case 1: { int n = r.range(2, 7); Matrix A(n, n); Vector b(n), x; for (int i = 0; i < n; ++i) { b[i] = r.uni(-1, 1); for (int j = 0; j < n; ++j) A(i, j) = r.uni(-1, 1) + (i == j ? 3 : 0); }
              FactorLU lu(A); lu.solve(b, x); for (int i = 0; i < n; ++i) h.mixd(x[i]); FactorQTZ qtz(A); qtz.solve(b, x); for (int i = 0; i < n; ++i) h.mixd(x[i]);
              Vector_<std::complex<double>> ev; Eigen eg(A); eg.getAllEigenValues(ev); for (int i = 0; i < n; ++i) { h.mixd(ev[i].real()); h.mixd(ev[i].imag()); } break; }
    case 2: { PolygonalMesh pm = PolygonalMesh::createSphereMesh(r.uni(0.5, 1.5), 1); ContactGeometry::TriangleMesh tm(pm);
              for (int i = 0; i < 6; ++i) { bool inside; UnitVec3 nrm; Vec3 p = tm.findNearestPoint(Vec3(r.uni(-2, 2), r.uni(-2, 2), r.uni(-2, 2)), inside, nrm); for (int k = 0; k < 3; ++k) { h.mixd(p[k]); h.mixd(nrm[k]); } h.mix(inside);
                  Real d; UnitVec3 n2; bool hit = tm.intersectsRay(Vec3(r.uni(-2, 2), r.uni(-2, 2), 3), UnitVec3(Vec3(r.uni(-0.2, 0.2), r.uni(-0.2, 0.2), -1)), d, n2); h.mix(hit); if (hit) h.mixd(d); } break; }
    case 3: { int n = r.range(2, 5); QuadSys qs(n, seed); Optimizer opt(qs, r.chance(0.5) ? LBFGSB : LBFGS); opt.setConvergenceTolerance(1e-6); Vector x(n); for (int i = 0; i < n; ++i) x[i] = r.uni(-3, 3); Real f = opt.optimize(x); h.mixd(f); for (int i = 0; i < n; ++i) h.mixd(x[i]); break; }
    case 4: { MultibodySystem sys; SimbodyMatterSubsystem matter(sys); GeneralForceSubsystem forces(sys); Force::Gravity grav(forces, matter, -YAxis, 9.8); forces.setNumberOfThreads(1);
              Body::Rigid body(MassProperties(1, Vec3(0), Inertia(1))); MobilizedBody last = matter.updGround(); int nb = r.range(1, 4);
              for (int b = 0; b < nb; ++b) last = MobilizedBody::Pin(last, Transform(Vec3(0, -1, 0)), body, Transform(Vec3(0, 1, 0)));
              State s = sys.realizeTopology(); for (int i = 0; i < s.getNQ(); ++i) s.updQ()[i] = r.uni(-1, 1); State c(s); sys.realize(c, Stage::Acceleration); for (int i = 0; i < c.getNU(); ++i) h.mixd(c.getUDot()[i]); break; }
    case 5: { int n = r.range(5, 12); Vector x(n), y(n); for (int i = 0; i < n; ++i) { x[i] = i + r.uni(0, 0.5); y[i] = r.uni(-1, 1); } Spline sp = SplineFitter<Real>::fitForSmoothingParameter(3, x, y, 0.1).getSpline(); for (int i = 0; i < 8; ++i) { Vector a(1, r.uni(0, n - 1.0)); h.mixd(sp.calcValue(a)); } break; }
    case 6: { int n = r.range(2, 4); QuadSys qs(n, seed); Optimizer opt(qs, CMAES); opt.setMaxIterations(30); opt.setAdvancedIntOption("popsize", 8); opt.setAdvancedIntOption("seed", (int)(seed % 1000) + 1); opt.setAdvancedRealOption("init_stepsize", 0.5); opt.setAdvancedRealOption("maxTimeFractionForEigendecomposition", 1.0); /* documented as required for reproducible results: otherwise CMA-ES consults the CPU clock */ Vector x(n); for (int i = 0; i < n; ++i) x[i] = r.uni(-2, 2); Real f = opt.optimize(x); h.mixd(f); for (int i = 0; i < n; ++i) h.mixd(x[i]); break; }
    case 8: { MultibodySystem sys; SimbodyMatterSubsystem matter(sys); GeneralForceSubsystem forces(sys); GeneralContactSubsystem gcs(sys); forces.setNumberOfThreads(1);
              ContactSetIndex set = gcs.createContactSet(); Body::Rigid body(MassProperties(1, Vec3(0), Inertia(1)));
              MobilizedBody::Free mover(matter.updGround(), Transform(), body, Transform());
              gcs.addBody(set, matter.updGround(), ContactGeometry::Ellipsoid(Vec3(r.uni(0.8, 1.5), 0.5, r.uni(0.8, 1.5))), Transform()); gcs.addBody(set, mover, ContactGeometry::Ellipsoid(Vec3(r.uni(0.2, 0.5), r.uni(0.2, 0.5), r.uni(0.2, 0.5))), Transform());
              HuntCrossleyForce hc(forces, gcs, set); hc.setBodyParameters(ContactSurfaceIndex(0), 1e5, 0.5, 0.6, 0.4, 0.1); hc.setBodyParameters(ContactSurfaceIndex(1), 1e5, 0.5, 0.6, 0.4, 0.1);
              State s = sys.realizeTopology();
              for (int k = 0; k < 3; ++k) { mover.setQToFitTransform(s, Transform(Rotation(r.uni(-1, 1), UnitVec3(Vec3(0.2, 1, 0.3))), Vec3(r.uni(-0.3, 0.3), r.uni(0.6, 0.9), r.uni(-0.3, 0.3)))); sys.realize(s, Stage::Dynamics);
                  const Array_<Contact>& cs = gcs.getContacts(s, set); h.mix(cs.size()); const Vector_<SpatialVec>& F = sys.getRigidBodyForces(s, Stage::Dynamics); for (int i = 0; i < 3; ++i) { h.mixd(F[1][0][i]); h.mixd(F[1][1][i]); } }
              break; }
    default: { Vec3 half(r.uni(0.3, 1), r.uni(0.3, 1), r.uni(0.3, 1)); ContactGeometry::Ellipsoid el(half); for (int i = 0; i < 6; ++i) { bool inside; UnitVec3 nrm; Vec3 p = el.findNearestPoint(Vec3(r.uni(-2, 2), r.uni(-2, 2), r.uni(-2, 2)), inside, nrm); for (int k = 0; k < 3; ++k) h.mixd(p[k]); }
               Vector_<std::complex<double>> roots(3); Vector coef(4); for (int i = 0; i < 4; ++i) coef[i] = r.uni(0.5, 2) * (i % 2 ? -1 : 1); PolynomialRootFinder::findRoots(coef, roots); for (int i = 0; i < 3; ++i) { h.mixd(roots[i].real()); h.mixd(roots[i].imag()); } break; }
    }
    return h.h;
}

struct Sched {
    const Plan* plan = nullptr; std::vector<std::unique_ptr<SimTask>> tasks; std::vector<Recipe> recipes; bool enabled = false; int depth = 0;
    std::map<std::pair<int, int>, long> ordinal; long reentSwitches = 0, reentNoise = 0, throwsFired = 0; std::set<int> faulted; long bySite[3] = {0, 0, 0};
    std::map<std::pair<int, uint64_t>, uint64_t> noiseRef; Result* res = nullptr; vf::Hash* key = nullptr; std::function<void(int, int)> stepInner;
    void callback(int task, int site) {
        if (!enabled || depth > 0) return;
        long n = ++ordinal[{task, site}];
        if (getenv("VERIF_DEBUG") && n < 12) std::fprintf(stderr, "callback task=%d site=%d n=%ld\n", task, site, n);
        for (auto& f : plan->faults) {
            if ((int)f.num("host", 0) % (int)recipes.size() != task || (int)f.num("site", 0) % 3 != site || f.num("at", 1) != n) continue;
            if (f.kind == "throw") { ++throwsFired; faulted.insert(task); throw std::runtime_error("injected callback failure"); }
            if (f.kind == "reent") {
                ++depth; ++bySite[site]; key->mix(1000 + task * 16 + site);
                try {
                    int what = (int)f.num("what", 0);
                    if (what == 0) { int j = (int)f.num("j", 0) % (int)tasks.size(); if (j == task) j = (j + 1) % (int)tasks.size();
                        // the other task is created/stepped through the same routine the scheduler uses, which contains that task's own failures:
                        // nothing thrown by the inner task may reach the host's callback
                        if (j != task && !faulted.count(j) && stepInner) { stepInner(j, (int)std::max(1L, f.num("n", 1))); ++reentSwitches; } }
                    else { uint64_t sd = (uint64_t)f.num("seed", 1); int kind = (int)f.num("kind", 0); uint64_t got = noise(kind, sd); ++reentNoise; checkNoise(kind, sd, got, "re-entrant (inside a callback of task " + std::to_string(task) + ")"); }
                } catch (...) { --depth; throw; }
                --depth;
            }
        }
    }
    void checkNoise(int kind, uint64_t sd, uint64_t got, const std::string& where) {
        auto it = noiseRef.find({kind % 9, sd}); if (it == noiseRef.end()) { noiseRef[{kind % 9, sd}] = got; return; }
        if (it->second != got) res->fail("noise-result-differs", "noise kind=" + std::to_string(kind % 9), "library call kind " + std::to_string(kind % 9) + " seed " + std::to_string(sd) + " gave a different result when run " + where + " than when run alone");
    }
};
static void hookCallback(int task, int site) { if (g_sched) g_sched->callback(task, site); }

struct C46 : vf::Engine {
    const char* property() const override { return "C46"; }
    void warmup() override { noise(0, 1); noise(3, 2); }

    Plan generate(uint64_t seed, const std::string& tier, const std::string& mode) override {
        Rng r(seed); Plan p; p.property = "C46"; p.seed = seed; bool faults = mode == "faults";
        int nt = r.range(2, tier == "thorough" ? 5 : 4);
        for (int k = 0; k < nt; ++k) { Op o = vf::mkop("task"); bool dup = k > 0 && r.chance(0.15);
            if (dup) { o = p.ops[r.below(k)]; } else { int integ = (int)r.below(hi::NINTEG); bool low = (integ == 0 || integ == 1 || integ == 5 || integ == 7);
                o.set("seed", (long)(r.next() >> 16)).set("integ", integ).setr("acc", std::pow(10.0, -((low && !r.chance(0.3)) ? r.range(2, 3) : r.range(2, 5)))).setr("dt", r.pick(std::vector<double>{0.004, 0.01, 0.02, 0.04})).set("steps", r.range(3, 10)).set("stepper", r.chance(0.4) ? 1 : 0).set("mesh", r.chance(0.25) ? 1 : 0).set("cons", r.chance(0.3) ? 1 : 0).set("contact", r.chance(0.35) ? 1 : 0).set("pres", r.chance(0.3) ? 1 : 0); }
            p.ops.push_back(o); }
        // fresh-process comparison (a quarter of the runs): the same plan is executed in two freshly started child processes, one of
        // which first runs unrelated "prelude" simulations and library calls; each task's solo digests must agree between the two
        if (r.chance(0.25)) { p.setcfg("xproc", 1); int np = r.range(1, 2);
            for (int k = 0; k < np; ++k) { int integ = r.chance(0.5) ? (int)p.ops[r.below(nt)].num("integ", 3) : (int)r.below(hi::NINTEG); bool low = (integ == 0 || integ == 1 || integ == 5 || integ == 7);
                p.ops.push_back(vf::mkop("prelude").set("seed", (long)(r.next() >> 16)).set("integ", integ).setr("acc", std::pow(10.0, -((low && !r.chance(0.3)) ? r.range(2, 3) : r.range(2, 5)))).setr("dt", 0.01).set("steps", r.range(2, 5)).set("stepper", r.chance(0.4) ? 1 : 0).set("mesh", 0).set("cons", 0).set("contact", r.chance(0.5) ? 1 : 0)); }
            p.ops.push_back(vf::mkop("prenoise").set("kind", (int)r.below(9)).set("seed", (long)(r.next() >> 40))); }
        p.setcfg("perturb0", (int)r.below(256)); p.setcfg("perturb1", (int)r.below(256));
        p.setcfg("clock_step", (long)r.pick(std::vector<long>{1, 1000, 250000, 40000000})); p.setcfg("clock_jump_at", r.chance(0.5) ? r.range(1, 400) : -1); p.setcfg("clock_jump", (long)r.pick(std::vector<long>{40000000L, 3000000, 900000000000L}));   // forward jumps only: clock() is monotone, and CMA-ES aborts the process on a backward reading
        // schedule: creation order, interleaved stepping, noise, destruction, heap perturbation
        int nsched = r.range(8, tier == "thorough" ? 60 : 36);
        for (int k = 0; k < nsched; ++k) { int w = (int)r.below(100); Op o;
            if (w < 60) o = vf::mkop("step").set("k", (int)r.below(nt)).set("n", r.range(1, 3));
            else if (w < 75) o = vf::mkop("noise").set("kind", (int)r.below(9)).set("seed", (long)(r.next() >> 40));
            else if (w < 83) o = vf::mkop("alloc").set("n", r.range(1, 40)).set("size", r.range(8, 4000));
            else if (w < 88) o = vf::mkop("perturb").set("b", (int)r.below(256));
            else if (w < 92) o = vf::mkop("destroy").set("k", (int)r.below(nt));
            else if (w < 96) o = vf::mkop("restart").set("k", (int)r.below(nt));
            else o = vf::mkop("create").set("k", (int)r.below(nt));
            p.ops.push_back(o); }
        // re-entrant switches (these are the "faults" of the schedule space: always present), callback failures only in the fault batch
        int nr = r.range(1, 5);
        for (int i = 0; i < nr; ++i) { Op f = vf::mkop("reent").set("host", (int)r.below(nt)).set("site", r.chance(0.7) ? 0 : (int)r.below(3)).set("at", 0).set("what", r.chance(0.65) ? 0 : 1).set("j", (int)r.below(nt)).set("n", r.range(1, 2)).set("kind", (int)r.below(9)).set("seed", (long)(r.next() >> 40)); f.set("at", f.num("site", 0) != 0 ? r.range(1, 4) : r.chance(0.5) ? r.range(1, 30) : r.range(1, 400)); p.faults.push_back(f); }
        if (faults) { int nf = r.range(1, 2); for (int i = 0; i < nf; ++i) p.faults.push_back(vf::mkop("throw").set("host", (int)r.below(nt)).set("site", r.chance(0.7) ? 0 : 1).set("at", r.range(1, 300))); }
        return p;
    }

    static Recipe recipeOf(const Op& op) { Recipe rc; rc.seed = (uint64_t)op.num("seed", 1); rc.integ = (int)(op.num("integ", 3) % hi::NINTEG); rc.accuracy = std::min(0.1, std::max(1e-7, op.real("acc", 1e-3))); rc.dt = std::max(1e-3, op.real("dt", 0.01)); rc.nsteps = (int)std::max(1L, std::min(40L, op.num("steps", 5))); rc.stepper = op.num("stepper", 0) != 0; rc.mesh = op.num("mesh", 0) != 0; rc.cons = op.num("cons", 0) != 0; rc.contact = (int)op.num("contact", 0) % 2; rc.pres = op.num("pres", 0) != 0; return rc; }

    // ---- fresh-process comparison: run the plan in two newly started processes (with and without the prelude) and compare
    struct ChildOut { bool ok = false; Result res; std::map<std::pair<int, int>, uint64_t> solo; std::string raw; };
    static ChildOut runChild(const std::string& planFile, int prelude) {
        ChildOut o; char exe[4096]; ssize_t n = readlink("/proc/self/exe", exe, sizeof exe - 1); if (n <= 0) return o; exe[n] = 0;
        std::string cmd = std::string(exe) + " child --file " + planFile + " --prelude " + std::to_string(prelude) + " 2>/dev/null";
        FILE* f = popen(cmd.c_str(), "r"); if (!f) return o; char buf[4096];
        while (fgets(buf, sizeof buf, f)) { std::string ln(buf); o.raw += ln;
            if (ln.rfind("D ", 0) == 0) { int k, i; unsigned long long d; if (std::sscanf(ln.c_str(), "D %d %d %llu", &k, &i, &d) == 3) o.solo[{k, i}] = d; }
            else if (ln.rfind("C ", 0) == 0) { char nm[200]; long v; if (std::sscanf(ln.c_str(), "C %199s %ld", nm, &v) == 2) o.res.counters[nm] += v; }
            else if (ln.rfind("REPLAY ", 0) == 0) { o.ok = true; char st[32], cls[200]; if (std::sscanf(ln.c_str(), "REPLAY st=%31s cls=%199s", st, cls) == 2 && std::string(st) == "viol") { o.res.violation = true; o.res.vclass = cls; size_t a = ln.find("sig="), b = ln.find(" | "); if (a != std::string::npos && b != std::string::npos) { o.res.signature = ln.substr(a + 4, b - a - 4); o.res.detail = ln.substr(b + 3); while (!o.res.detail.empty() && o.res.detail.back() == '\n') o.res.detail.pop_back(); } } }
        }
        pclose(f); return o;
    }
    Result executeAcrossProcesses(const Plan& p) {
        Result res; char tmpl[] = "/tmp/c46-xproc-XXXXXX"; int fd = mkstemp(tmpl); if (fd < 0) { res.inconclusive = true; res.detail = "cannot create a temporary plan file"; return res; }
        { Plan q = p; q.setcfg("xproc", 0); std::string s = q.text(); if (write(fd, s.data(), s.size()) < 0) {} close(fd); }
        ChildOut a = runChild(tmpl, 0), b = runChild(tmpl, 1); unlink(tmpl);
        vf::Hash h; for (auto& kv : a.solo) { h.mix(kv.first.first); h.mix(kv.first.second); h.mix(kv.second); } res.hash = h.h; res.key = h.h ^ 0x5851f42d4c957f2dULL;
        if (!a.ok || !b.ok) { res.fail("harness-child-failed", "child", "a child process of the fresh-process comparison produced no result: " + vf::sanitize((a.ok ? b.raw : a.raw).substr(0, 300))); return res; }
        res.counters = b.res.counters; res.count("xproc_runs"); res.count("probe_prelude_before_fresh_start");
        for (auto& kv : res.counters) if (kv.first == "task_steps") res.simtime = (double)kv.second;
        if (a.res.violation) { res = a.res; res.hash = h.h; return res; }
        if (b.res.violation) { Result r = b.res; r.hash = h.h; r.counters = res.counters; return r; }
        long cmp = 0;
        for (auto& kv : a.solo) { auto it = b.solo.find(kv.first); if (it == b.solo.end()) continue; ++cmp;
            if (it->second != kv.second) { std::vector<Recipe> rcs; for (auto& op : p.ops) if (op.kind == "task") rcs.push_back(recipeOf(op)); const Recipe& rc = rcs[kv.first.first % rcs.size()];
                res.fail("trajectory-depends-on-process-history", std::string("integrator=") + hi::IntegNames[rc.integ] + (rc.contact ? " contact=general" : " contact=compliant"), "task " + std::to_string(kv.first.first) + " (" + hi::IntegNames[rc.integ] + "): returned state #" + std::to_string(kv.first.second) + " of the task run alone differs between a freshly started process and a freshly started process that first ran unrelated simulations and library calls"); break; } }
        res.count("states_compared_across_processes", cmp); res.nontrivial = cmp >= 4;
        return res;
    }

    Result execute(const Plan& p) override { if (p.cfgn("xproc", 0)) return executeAcrossProcesses(p); return executeInProcess(p, false, nullptr); }

    Result executeInProcess(const Plan& p, bool prelude, std::vector<std::vector<uint64_t>>* soloOut) {
        Result res; vf::Hash key, hash; Sched S; S.plan = &p; S.res = &res; S.key = &key; g_sched = &S;
        if (prelude) {   // unrelated work at the very start of the process; nothing below may depend on it
            for (auto& op : p.ops) { try { if (op.kind == "prelude") { Recipe rc = recipeOf(op); SimTask t(90, rc); for (int i = 0; i < rc.nsteps; ++i) t.step(); } else if (op.kind == "prenoise") noise((int)op.num("kind", 0), (uint64_t)op.num("seed", 1)); } catch (const std::exception&) {} }
        }
        for (auto& op : p.ops) if (op.kind == "task") S.recipes.push_back(recipeOf(op));
        if (S.recipes.empty()) { res.inconclusive = true; res.detail = "no tasks"; g_sched = nullptr; return res; }
        const int nt = (int)S.recipes.size();
        // ---------------- phase 1: every task alone, from a fresh start (the reference)
        mallopt(M_PERTURB, (int)p.cfgn("perturb0", 0));
        g_clockNow = 0; g_clockStep = 1000; g_clockReads = 0; g_clockJumpAt = -1; long clockReads0 = 0;
        std::vector<std::vector<uint64_t>> ref(nt); std::vector<char> refOk(nt, 1);
        for (int k = 0; k < nt; ++k) {
            try { SimTask t(k, S.recipes[k]); for (int i = 0; i < S.recipes[k].nsteps; ++i) t.step(); ref[k] = t.digest; }
            catch (const std::exception& e) { refOk[k] = 0; res.count("tasks_failing_alone"); if (getenv("VERIF_DEBUG")) std::fprintf(stderr, "task %d fails alone: %s\n", k, e.what()); }     // a simulation that fails on its own says nothing about isolation
        }
        if (soloOut) *soloOut = ref;
        for (auto& op : p.ops) if (op.kind == "noise") S.checkNoise((int)op.num("kind", 0), (uint64_t)op.num("seed", 1), noise((int)op.num("kind", 0), (uint64_t)op.num("seed", 1)), "alone");
        for (auto& f : p.faults) if (f.kind == "reent" && f.num("what", 0) != 0) S.checkNoise((int)f.num("kind", 0), (uint64_t)f.num("seed", 1), noise((int)f.num("kind", 0), (uint64_t)f.num("seed", 1)), "alone");
        // ---------------- phase 2: the same tasks under the seeded schedule, on a different heap pattern and a different (skewed, jumping) clock
        mallopt(M_PERTURB, (int)p.cfgn("perturb1", 0));
        g_clockStep = std::max(1L, p.cfgn("clock_step", 1000)); g_clockJumpAt = g_clockReads + p.cfgn("clock_jump_at", -1); g_clockJump = std::max(0L, p.cfgn("clock_jump", 0)); if (p.cfgn("clock_jump_at", -1) < 0) g_clockJumpAt = -1;
        S.tasks.resize(nt); S.enabled = true; std::vector<std::unique_ptr<char[]>> junk; long steps = 0, destroyedMid = 0, compared = 0; std::set<int> everCreated;
        auto compare = [&](int k) {
            if (!S.tasks[k] || !refOk[k]) return; const std::vector<uint64_t>& d = S.tasks[k]->digest; size_t n = d.size();
            if (S.faulted.count(k)) return;                  // a task whose callback failed is abandoned; nothing is claimed about it
            for (size_t i = 0; i < n && i < ref[k].size(); ++i) { ++compared; if (d[i] != ref[k][i]) { const Recipe& rc = S.recipes[k];
                res.fail("trajectory-differs", std::string("integrator=") + hi::IntegNames[rc.integ] + (rc.stepper ? " drive=TimeStepper" : " drive=stepTo") + (S.reentSwitches + S.reentNoise ? " reentrant=yes" : " reentrant=no"),
                         "task " + std::to_string(k) + " (" + hi::IntegNames[rc.integ] + ", " + std::to_string(rc.nsteps) + " steps of " + std::to_string(rc.dt) + "): returned state #" + std::to_string(i) + " differs from the same task run alone (digest " + std::to_string(d[i]) + " vs " + std::to_string(ref[k][i]) + ")"); return; } }
            if (n > ref[k].size()) res.fail("trajectory-differs", "length", "task " + std::to_string(k) + " returned more states than when run alone");
        };
        auto create = [&](int k) { if (S.tasks[k] || S.faulted.count(k)) return; try { S.tasks[k].reset(new SimTask(k, S.recipes[k])); everCreated.insert(k); } catch (const std::exception& e) { if (refOk[k] && !S.faulted.count(k)) res.fail("task-fails-only-when-interleaved", "create", std::string("task ") + std::to_string(k) + " could be built and run alone but failed to initialize under the schedule: " + e.what()); } };
        std::function<void(int, int)> stepTask = [&](int k, int n) {
            if (!S.tasks[k]) create(k); if (!S.tasks[k]) return;
            for (int i = 0; i < n && S.tasks[k] && S.tasks[k]->done < S.recipes[k].nsteps; ++i) {
                try { S.tasks[k]->step(); ++steps; key.mix(k); }
                catch (const std::exception& e) {
                    if (S.faulted.count(k)) { S.tasks[k].reset(); ++destroyedMid; res.count("fault_task_destroyed_mid_step"); return; }     // the injected failure: abandon and destroy the task
                    if (!refOk[k]) { S.tasks[k].reset(); return; }
                    res.fail("task-fails-only-when-interleaved", "step", std::string("task ") + std::to_string(k) + " ran alone but failed under the schedule: " + e.what()); return; }
                if (S.faulted.count(k)) { S.tasks[k].reset(); ++destroyedMid; res.count("fault_task_destroyed_mid_step"); return; }   // the integrator recovered from the failure; the task is abandoned all the same
            }
        };
        // a task switched to before its first scheduled use is built inside the callback; one already destroyed by the schedule is not resurrected
        S.stepInner = [&](int k, int n) { if (!S.tasks[k] && everCreated.count(k)) return; try { stepTask(k, n); } catch (...) { if (S.tasks[k]) S.tasks[k].reset(); } };
        try {
            for (auto& op : p.ops) {
                if (res.violation) break;
                if (op.kind == "task" || op.kind == "prelude" || op.kind == "prenoise") continue;
                if (op.kind == "step") stepTask((int)op.num("k", 0) % nt, (int)std::max(1L, op.num("n", 1)));
                else if (op.kind == "create") create((int)op.num("k", 0) % nt);
                else if (op.kind == "restart") { int k = (int)op.num("k", 0) % nt; if (S.tasks[k] && S.tasks[k]->done >= 1 && !S.faulted.count(k)) { compare(k);
                        try { S.tasks[k]->restart(); res.count("probe_same_objects_reused_for_a_second_run"); } catch (const std::exception& e) { if (S.faulted.count(k)) { S.tasks[k].reset(); ++destroyedMid; res.count("fault_task_destroyed_mid_step"); }     /* the injected callback failure hit the re-initialization: the task is abandoned */
                            else if (refOk[k]) res.fail("task-fails-only-when-interleaved", "restart", std::string("task ") + std::to_string(k) + " ran alone but could not be initialized again on the same objects: " + e.what()); } } }
                else if (op.kind == "destroy") { int k = (int)op.num("k", 0) % nt; if (S.tasks[k]) { compare(k); bool mid = S.tasks[k]->done < S.recipes[k].nsteps; S.tasks[k].reset(); if (mid) res.count("probe_task_destroyed_while_others_continue"); } }
                else if (op.kind == "noise") { S.enabled = false; uint64_t g = noise((int)op.num("kind", 0), (uint64_t)op.num("seed", 1)); S.enabled = true; S.checkNoise((int)op.num("kind", 0), (uint64_t)op.num("seed", 1), g, "interleaved between simulation steps"); res.count("noise_calls"); }
                else if (op.kind == "alloc") { int n = (int)op.num("n", 1); size_t sz = (size_t)std::max(1L, op.num("size", 64)); if (junk.size() > 200) junk.erase(junk.begin(), junk.begin() + 100); for (int i = 0; i < n; ++i) { junk.emplace_back(new char[sz]); std::memset(junk.back().get(), 0x5a + i, sz); } }
                else if (op.kind == "perturb") mallopt(M_PERTURB, (int)op.num("b", 0));
            }
            // finish every live task, in index order, then compare
            for (int k = 0; k < nt && !res.violation; ++k) if (S.tasks[k]) { stepTask(k, S.recipes[k].nsteps); compare(k); }
        } catch (const std::exception& e) { res.fail("unexpected-exception", "exception", e.what()); }
        S.enabled = false; S.tasks.clear(); mallopt(M_PERTURB, 0); g_sched = nullptr;
        res.count("probe_reentrant_switch_to_other_task", S.reentSwitches); res.count("probe_reentrant_noise_call", S.reentNoise); res.count("probe_switch_inside_calcForce", S.bySite[0]); res.count("probe_switch_inside_event_handler", S.bySite[1]); res.count("probe_switch_inside_reporter", S.bySite[2]);
        res.count("fault_callback_throw", S.throwsFired); res.count("clock_readings", g_clockReads - clockReads0); if (g_clockJumpAt > 0 && g_clockReads >= g_clockJumpAt) res.count("fault_clock_jump"); res.count("states_compared", compared); res.count("task_steps", steps);
        { std::set<uint64_t> seeds; bool dup = false; for (auto& rc : S.recipes) if (!seeds.insert(rc.seed).second) dup = true; if (dup) res.count("probe_same_recipe_twice"); }
        res.nontrivial = nt >= 2 && (S.reentSwitches + S.reentNoise) >= 1 && compared >= 6; res.simtime = (double)steps;
        hash.mix(compared); hash.mix(steps); for (auto& v : ref) for (auto d : v) hash.mix(d);
        res.key = key.h; res.hash = hash.h;
        return res;
    }
};

int main(int argc, char** argv) {
    C46 e;
    if (argc > 1 && std::string(argv[1]) == "child") {     // one half of a fresh-process comparison
        if (!getenv("OPENBLAS_NUM_THREADS")) { setenv("OPENBLAS_NUM_THREADS", "1", 1); execv("/proc/self/exe", argv); }
        std::string file; int prelude = 0; for (int i = 2; i + 1 < argc; i += 2) { if (std::string(argv[i]) == "--file") file = argv[i + 1]; if (std::string(argv[i]) == "--prelude") prelude = std::atoi(argv[i + 1]); }
        std::ifstream f(file); Plan p; if (!f || !Plan::parse(f, p)) return 2;
        std::vector<std::vector<uint64_t>> solo; Result r = e.executeInProcess(p, prelude != 0, &solo);
        for (size_t k = 0; k < solo.size(); ++k) for (size_t i = 0; i < solo[k].size(); ++i) std::printf("D %zu %zu %llu\n", k, i, (unsigned long long)solo[k][i]);
        for (auto& kv : r.counters) std::printf("C %s %ld\n", kv.first.c_str(), kv.second);
        std::printf("REPLAY st=%s cls=%s hash=0 sig=%s | %s\n", r.violation ? "viol" : "ok", r.violation ? r.vclass.c_str() : "-", r.violation ? vf::sanitize(r.signature).c_str() : "-", vf::sanitize(r.detail).c_str());
        return 0;
    }
    return vf::engineMain(argc, argv, e);
}
