// C33 — ParallelExecutor / Parallel2DExecutor / ParallelWorkQueue under the
// deterministic thread simulator. Real library code; harness tasks are the
// "clients". All harness bookkeeping goes through simv_* (uninstrumented side).
#include "SimTKcommon.h"
#include "SimTKmath.h"
#include "../common/common.h"
#include "simv.h"
#include "tharness.h"
#include <set>
#include <memory>

using namespace SimTK;
using vf::Plan; using vf::Op; using vf::Result; using vf::Rng;

enum { EV_INIT = 1, EV_XB, EV_XE, EV_FB, EV_FE, EV_CALLB, EV_CALLE, EV_TDTOR, EV_FLUSHB, EV_FLUSHE,
       EV_ADDB, EV_ADDE, EV_DTORB, EV_DTORE, EV_2DB, EV_2DE };

static void yields(int n) { for (int k = 0; k < n; ++k) simv_yield(); }

struct PETask : ParallelExecutor::Task {
    int op, ny;
    PETask(int op, int ny) : op(op), ny(ny) {}
    void initialize() override { simv_log(EV_INIT, 0, 0, op); if (ny) simv_yield(); }
    void execute(int i) override { simv_log(EV_XB, i, 0, op); yields(ny); simv_log(EV_XE, i, 0, op); }
    void finish() override { simv_log(EV_FB, 0, 0, op); simv_yield(); simv_log(EV_FE, 0, 0, op); }
};
struct P2DTask : Parallel2DExecutor::Task {
    int op, ymod;
    P2DTask(int op, int ymod) : op(op), ymod(ymod) {}
    void initialize() override { simv_log(EV_INIT, 0, 0, op); }
    void execute(int i, int j) override {
        simv_log(EV_2DB, i, j, op);
        if (ymod > 0 && (i * 31 + j * 17) % ymod == 0) simv_yield();
        simv_log(EV_2DE, i, j, op);
    }
    void finish() override { simv_log(EV_FB, 0, 0, op); simv_yield(); simv_log(EV_FE, 0, 0, op); }
};
struct QTask : ParallelWorkQueue::Task {
    int id, ny;
    QTask(int id, int ny) : id(id), ny(ny) {}
    ~QTask() override { simv_log(EV_TDTOR, id, 0, 0); }
    void execute() override { simv_log(EV_XB, id, 0, 0); yields(ny); simv_log(EV_XE, id, 0, 0); }
};

// A real client of ParallelExecutor inside the library: CMA-ES evaluating its population on worker threads.
static bool g_inSim = false;
class CmaSys : public OptimizerSystem {
public:
    CmaSys(int n, uint64_t seed, int ny) : OptimizerSystem(n), c(n), ny(ny) { vf::Rng r(seed); for (int i = 0; i < n; ++i) c[i] = r.uni(-1, 1); }
    int objectiveFunc(const Vector& x, bool, Real& f) const override { if (g_inSim) yields(ny); f = 0; for (int i = 0; i < x.size(); ++i) f += (1 + i) * square(x[i] - c[i]); if (g_inSim) simv_log(EV_XB, 0, 0, 99); return 0; }
    Vector c; int ny;
};
static uint64_t runCma(const Plan& p, int threads) {
    int n = (int)std::max(2L, std::min(4L, p.cfgn("dim", 2))); uint64_t sd = (uint64_t)p.cfgn("cma_seed", 7);
    CmaSys sys(n, sd, (int)p.cfgn("yield", 1)); Optimizer opt(sys, CMAES);
    opt.setMaxIterations((int)std::max(1L, std::min(12L, p.cfgn("iters", 4)))); opt.setAdvancedIntOption("popsize", (int)std::max(2L, std::min(12L, p.cfgn("popsize", 6))));
    opt.setAdvancedIntOption("seed", (int)(sd % 1000) + 1); opt.setAdvancedRealOption("init_stepsize", 0.4); opt.setAdvancedRealOption("maxTimeFractionForEigendecomposition", 1.0);
    if (threads > 0) { opt.setAdvancedStrOption("parallel", "multithreading"); opt.setAdvancedIntOption("nthreads", threads); }
    Vector x(n, 0.25); Real f = opt.optimize(x); vf::Hash h; h.mixd(f); for (int i = 0; i < n; ++i) h.mixd(x[i]); return h.h;
}

struct Ev { long seq; int tid, kind, a, b, c; };

struct C33 : vf::Engine {
    const char* property() const override { return "C33"; }
    void warmup() override {
        // first-use statics (iostream, TLS, allocator arenas) before any simulation
        // run under the simulator as well, so that no real concurrency ever happens in this process
        Plan p; p.setcfg("sched_seed", 1); p.setcfg("policy", 0); p.setcfg("step_budget", 100000);
        th::begin(p);
        // single-threaded on purpose: a warm-up that could itself trip a defect would mask the run that found it
        { ParallelExecutor ex(1); PETask t(0, 0); ex.execute(t, 3); Parallel2DExecutor e2(3, 1); P2DTask t2(0, 0); e2.execute(t2, Parallel2DExecutor::FullMatrix); }
        Result r; th::end(p, r);
    }

    Plan generate(uint64_t seed, const std::string& tier, const std::string&) override {
        Rng r(seed); Plan p; p.property = "C33"; p.seed = seed;
        bool thorough = tier == "thorough";
        int w = (int)r.below(100);
        th::genSched(p, r);
        auto nthreads = [&]() { return r.chance(0.7) ? r.range(1, 4) : r.smallBiased(1, 32); };
        if (w < 45) {
            p.setcfg("workload", "PE");
            int n = nthreads();
            bool dflt = r.chance(0.1);
            p.setcfg("threads", dflt ? 0 : n);
            p.setcfg("nproc", dflt ? n : r.range(1, 32));
            int nops = r.range(1, 4);
            for (int k = 0; k < nops; ++k) {
                if (r.chance(0.07)) { p.ops.push_back(vf::mkop("clone")); continue; }
                int c;
                switch (r.below(7)) {
                case 0: c = 0; break; case 1: c = 1; break; case 2: c = std::max(0, n - 1); break;
                case 3: c = n; break; case 4: c = n + 1; break;
                default: c = r.smallBiased(0, 200);
                }
                int ny = (int)r.below(3);
                if (thorough && r.chance(0.03)) { c = r.range(1000, 10000); ny = 0; }
                p.ops.push_back(vf::mkop("exec").set("count", c).set("yield", ny));
            }
        } else if (w < 70) {
            p.setcfg("workload", "P2D");
            int g = r.chance(0.15) ? (int)r.below(3) : r.smallBiased(0, thorough ? 128 : 48);
            p.setcfg("grid", g);
            bool ext = r.chance(0.4);
            p.setcfg("external", ext ? 1 : 0);
            p.setcfg("threads", nthreads());
            p.setcfg("nproc", r.chance(0.5) ? r.range(1, 8) : r.range(1, 32));
            p.setcfg("dflt", (!ext && r.chance(0.15)) ? 1 : 0);   // Parallel2DExecutor(g) with default thread count
            int nops = r.range(1, 3);
            for (int k = 0; k < nops; ++k)
                p.ops.push_back(vf::mkop("exec2d").set("range", (int)r.below(3)).set("ymod", g > 40 ? r.range(7, 40) : r.range(1, 5)));
        } else if (w >= 94) {
            p.setcfg("workload", "CMA");
            p.setcfg("threads", r.range(1, 4)); p.setcfg("nproc", r.range(1, 8)); p.setcfg("dim", r.range(2, 4)); p.setcfg("popsize", r.range(3, 8)); p.setcfg("iters", r.range(1, 5));
            p.setcfg("cma_seed", (uint64_t)(r.next() >> 40)); p.setcfg("yield", (int)r.below(3));
            p.ops.push_back(vf::mkop("optimize"));
        } else {
            p.setcfg("workload", "PWQ");
            p.setcfg("qsize", r.chance(0.5) ? r.range(1, 3) : r.smallBiased(1, 64));
            p.setcfg("threads", nthreads());
            p.setcfg("nproc", r.range(1, 32));
            p.setcfg("final_flush", r.chance(0.5) ? 1 : 0);
            int nops = r.range(1, 6);
            for (int k = 0; k < nops; ++k) {
                if (r.chance(0.3)) p.ops.push_back(vf::mkop("flush"));
                else p.ops.push_back(vf::mkop("add").set("n", r.chance(0.7) ? r.range(1, 6) : r.smallBiased(1, thorough ? 300 : 80)).set("yield", (int)r.below(3)));
            }
        }
        // generous budget; it only decides when the fault-free fair phase starts
        long work = 0;
        for (auto& op : p.ops) work += op.num("count", 0) * (1 + op.num("yield", 0)) + op.num("n", 0) * (3 + op.num("yield", 0));
        long g = p.cfgn("grid", 0);
        work += (long)p.ops.size() * g * g;
        if (p.cfg("workload") == "CMA") work += 40 * p.cfgn("popsize", 6) * p.cfgn("iters", 4) * (1 + p.cfgn("yield", 1));
        p.setcfg("step_budget", 4000 + 60 * work + 400 * (p.cfgn("threads", 1) + p.cfgn("nproc", 1)) * (long)(p.ops.size() + 1));
        return p;
    }

    // ------------------------------------------------------------ execution
    std::vector<Ev> ev;
    void collect() {
        long n = simv_nevents(); ev.resize(n);
        for (long i = 0; i < n; ++i) simv_event_get_light(i, &ev[i].seq, &ev[i].tid, &ev[i].kind, &ev[i].a, &ev[i].b, &ev[i].c);
    }

    Result execute(const Plan& p) override {
        Result res;
        std::string w = p.cfg("workload", "PE");
        uint64_t cmaSerial = 0, cmaParallel = 0;
        if (w == "CMA") { try { cmaSerial = runCma(p, 0); } catch (const std::exception& e) { res.inconclusive = true; res.detail = std::string("serial CMA-ES failed: ") + e.what(); return res; } }
        th::begin(p);
        std::vector<int> counts; // per op: expected count (PE), range (P2D)
        int nadded = 0;
        std::vector<std::pair<int, int>> flushRanges; // (flush ordinal, tasks added before)
        try {
            if (w == "PE") {
                int n = (int)p.cfgn("threads", 2);
                std::unique_ptr<ParallelExecutor> ex(n <= 0 ? new ParallelExecutor() : new ParallelExecutor(n));
                int k = 0;
                for (auto& op : p.ops) {
                    if (op.kind == "clone") { std::unique_ptr<ParallelExecutor> c(ex->clone()); if (c->getMaxThreads() != ex->getMaxThreads()) res.fail("clone-threads", "clone", "clone has different thread count"); ex.swap(c); }
                    else if (op.kind == "exec") {
                        int c = (int)op.num("count", 1); PETask t(k, (int)op.num("yield", 0));
                        simv_log(EV_CALLB, c, 0, k); ex->execute(t, c); simv_log(EV_CALLE, c, 0, k);
                    }
                    ++k;
                }
                simv_log(EV_DTORB, 0, 0, 0); ex.reset(); simv_log(EV_DTORE, 0, 0, 0);
            } else if (w == "CMA") {
                g_inSim = true; cmaParallel = runCma(p, std::max(1, (int)p.cfgn("threads", 2))); g_inSim = false;
            } else if (w == "P2D") {
                int g = (int)p.cfgn("grid", 4), n = std::max(1, (int)p.cfgn("threads", 2));
                std::unique_ptr<ParallelExecutor> ext;
                std::unique_ptr<Parallel2DExecutor> ex;
                if (p.cfgn("external", 0)) { ext.reset(new ParallelExecutor(n)); ex.reset(new Parallel2DExecutor(g, *ext)); }
                else if (p.cfgn("dflt", 0)) ex.reset(new Parallel2DExecutor(g));
                else ex.reset(new Parallel2DExecutor(g, n));
                int k = 0;
                for (auto& op : p.ops) {
                    if (op.kind == "exec2d") {
                        int rt = (int)(op.num("range", 0) % 3); P2DTask t(k, (int)op.num("ymod", 1));
                        simv_log(EV_CALLB, rt, g, k); ex->execute(t, (Parallel2DExecutor::RangeType)rt); simv_log(EV_CALLE, rt, g, k);
                    }
                    ++k;
                }
                simv_log(EV_DTORB, 0, 0, 0); ex.reset(); ext.reset(); simv_log(EV_DTORE, 0, 0, 0);
            } else {
                int q = std::max(1, (int)p.cfgn("qsize", 2)), n = std::max(1, (int)p.cfgn("threads", 2));
                std::unique_ptr<ParallelWorkQueue> wq(new ParallelWorkQueue(q, n));
                int nf = 0;
                for (auto& op : p.ops) {
                    if (op.kind == "add") {
                        int cnt = (int)op.num("n", 1), ny = (int)op.num("yield", 0);
                        for (int i = 0; i < cnt; ++i) { int id = nadded++; simv_log(EV_ADDB, id, 0, 0); wq->addTask(new QTask(id, ny)); simv_log(EV_ADDE, id, 0, 0); }
                    } else if (op.kind == "flush") {
                        simv_log(EV_FLUSHB, nf, nadded, 0); wq->flush(); simv_log(EV_FLUSHE, nf, nadded, 0); ++nf;
                    }
                }
                if (p.cfgn("final_flush", 0)) { simv_log(EV_FLUSHB, nf, nadded, 0); wq->flush(); simv_log(EV_FLUSHE, nf, nadded, 0); }
                simv_log(EV_DTORB, 0, 0, 0); wq.reset(); simv_log(EV_DTORE, 0, 0, 0);
            }
        } catch (const std::exception& e) {
            res.fail("exception", "exception", e.what());
        }
        g_inSim = false;
        th::end(p, res);
        collect();
        if (!res.violation) {
            if (w == "PE") checkPE(p, res); else if (w == "P2D") checkP2D(p, res);
            else if (w == "CMA") { res.count("probe_cmaes_population_on_executor"); if (cmaParallel != cmaSerial) res.fail("cmaes-parallel-differs", "CMA", "CMA-ES with a fixed seed returned a different optimum when its population was evaluated on " + S(p.cfgn("threads", 2)) + " simulated threads than serially"); }
            else checkPWQ(p, res, nadded);
        }
        res.count("events", (long)ev.size());
        return res;
    }

    static std::string S(long v) { return std::to_string(v); }

    // finish() intervals pairwise exclusive: by sequence (the yield inside makes an
    // overlap visible in the serial execution) and by vector clock (schedule independent)
    void checkFinishExclusive(const std::vector<std::pair<long, long>>& fin, Result& res, const std::string& what) {
        for (size_t x = 0; x < fin.size(); ++x) for (size_t y = x + 1; y < fin.size(); ++y) {
            auto A = fin[x], B = fin[y];
            if (!(A.second < B.first || B.second < A.first))
                res.fail("finish-overlap", what, "two finish() calls overlapped in the simulated execution: events " + S(A.first) + ".." + S(A.second) + " and " + S(B.first) + ".." + S(B.second));
            if (!(simv_hb(A.second, B.first) || simv_hb(B.second, A.first)))
                res.fail("finish-not-synchronized", what, "two finish() calls not separated by a happens-before edge (tids " + S(ev[A.first].tid) + "," + S(ev[B.first].tid) + ")");
        }
    }

    void checkPE(const Plan& p, Result& res) {
        int k = -1;
        for (auto& op : p.ops) {
            ++k;
            if (op.kind != "exec") continue;
            int c = (int)op.num("count", 1);
            long B = -1, E = -1;
            std::vector<int> mult(std::max(c, 1), 0);
            std::map<int, int> state; // per tid: 0 none,1 inited,2 in exec,3 in finish,4 finished
            std::map<int, int> cur;
            std::map<int, long> fb;
            std::vector<std::pair<long, long>> fin;
            for (auto& e : ev) {
                if (e.kind == EV_DTORB || e.kind == EV_DTORE || e.c != k) continue;
                if (e.kind == EV_CALLB) { B = e.seq; continue; }
                if (e.kind == EV_CALLE) { E = e.seq; continue; }
                if (B < 0 || E >= 0) { res.fail("outside-call", "PE", "task method ran outside its execute() call (event " + S(e.seq) + " kind " + S(e.kind) + ")"); continue; }
                int& s = state[e.tid];
                switch (e.kind) {
                case EV_INIT: if (s != 0) res.fail("worker-order", "PE initialize", "initialize() called twice or late on a worker"); s = 1; break;
                case EV_XB:
                    if (s != 1) res.fail("worker-order", "PE execute", "execute() before initialize() or after finish() on a worker (state " + S(s) + ")");
                    if (e.a < 0 || e.a >= c) res.fail("index-range", "PE", "index " + S(e.a) + " outside 0.." + S(c - 1));
                    else mult[e.a]++;
                    s = 2; cur[e.tid] = e.a; break;
                case EV_XE: if (s != 2 || cur[e.tid] != e.a) res.fail("worker-order", "PE execute", "unbalanced execute"); s = 1; break;
                case EV_FB: if (s != 1) res.fail("worker-order", "PE finish", "finish() without initialize() or during execute (state " + S(s) + ")"); s = 3; fb[e.tid] = e.seq; break;
                case EV_FE: if (s != 3) res.fail("worker-order", "PE finish", "unbalanced finish"); s = 4; fin.emplace_back(fb[e.tid], e.seq); break;
                }
            }
            if (B < 0 || E < 0) { res.fail("no-return", "PE", "execute() did not return"); continue; }
            for (int i = 0; i < c; ++i) if (mult[i] != 1) { res.fail(mult[i] == 0 ? "index-missed" : "index-repeated", "PE", "index " + S(i) + " executed " + S(mult[i]) + " times (count " + S(c) + ")"); break; }
            for (auto& s : state) if (s.second != 4) res.fail("finish-missing", "PE", "worker t" + S(s.first) + " did not complete initialize..finish before execute() returned (state " + S(s.second) + ")");
            if (state.empty()) res.fail("no-worker", "PE", "no worker called initialize/finish");
            checkFinishExclusive(fin, res, "PE");
            if (fin.size() > 1) res.count("probe_multi_finish");
            int n = (int)p.cfgn("threads", 0); if (n <= 0) n = (int)p.cfgn("nproc", 1);
            if (c < n) res.count("probe_count_lt_threads");
            if (c == 0) res.count("probe_count_zero");
        }
    }

    void checkP2D(const Plan& p, Result& res) {
        int g = (int)p.cfgn("grid", 4);
        int k = -1;
        // index use across the whole run (passes and repeated executions share indices)
        std::vector<long> lastClose(std::max(g, 1), -1);
        std::vector<int> openBy(std::max(g, 1), -1);
        for (auto& op : p.ops) {
            ++k;
            if (op.kind != "exec2d") continue;
            int rt = (int)(op.num("range", 0) % 3);
            long B = -1, E = -1;
            std::vector<int> mult((size_t)g * g + 1, 0);
            std::map<int, int> state; std::map<int, long> fb; std::vector<std::pair<long, long>> fin;
            for (auto& e : ev) {
                if (e.kind == EV_DTORB || e.kind == EV_DTORE || e.c != k) continue;
                if (e.kind == EV_CALLB) { B = e.seq; continue; }
                if (e.kind == EV_CALLE) { E = e.seq; continue; }
                if (B < 0 || E >= 0) { res.fail("outside-call", "P2D", "task method ran outside its execute() call"); continue; }
                int& s = state[e.tid];
                switch (e.kind) {
                case EV_INIT: if (s != 0) res.fail("worker-order", "P2D initialize", "initialize() called twice on a worker"); s = 1; break;
                case EV_2DB: {
                    if (s != 1) res.fail("worker-order", "P2D execute", "execute(i,j) before initialize() or after finish() (state " + S(s) + ")");
                    s = 2;
                    int i = e.a, j = e.b;
                    bool inrange = i >= 0 && j >= 0 && i < g && j < g && (rt == 0 || (rt == 1 && i > j) || (rt == 2 && i >= j));
                    if (!inrange) { res.fail("pair-range", "P2D", "pair (" + S(i) + "," + S(j) + ") outside the requested range type " + S(rt)); break; }
                    mult[(size_t)i * g + j]++;
                    for (int idx : {i, j}) {
                        if (openBy[idx] >= 0 && openBy[idx] != e.tid)
                            res.fail("shared-index-concurrent", "P2D", "invocation (" + S(i) + "," + S(j) + ") started while another thread was inside an invocation using index " + S(idx));
                        if (lastClose[idx] >= 0 && !simv_hb(lastClose[idx], e.seq))
                            res.fail("shared-index-unordered", "P2D", "invocations sharing index " + S(idx) + " not separated by a happens-before edge");
                    }
                    openBy[i] = e.tid; openBy[j] = e.tid;
                    break; }
                case EV_2DE: if (s != 2) res.fail("worker-order", "P2D execute", "unbalanced execute"); s = 1;
                    if (e.a >= 0 && e.a < g && e.b >= 0 && e.b < g) { openBy[e.a] = -1; openBy[e.b] = -1; lastClose[e.a] = e.seq; lastClose[e.b] = e.seq; }
                    break;
                case EV_FB: if (s != 1) res.fail("worker-order", "P2D finish", "finish() without initialize() (state " + S(s) + ")"); s = 3; fb[e.tid] = e.seq; break;
                case EV_FE: s = 4; fin.emplace_back(fb[e.tid], e.seq); break;
                }
            }
            if (B < 0 || E < 0) { res.fail("no-return", "P2D", "execute() did not return"); continue; }
            for (int i = 0; i < g && !res.violation; ++i) for (int j = 0; j < g; ++j) {
                bool want = rt == 0 || (rt == 1 && i > j) || (rt == 2 && i >= j);
                int m = mult[(size_t)i * g + j];
                if (m != (want ? 1 : 0)) { res.fail(m == 0 ? "pair-missed" : "pair-repeated", "P2D", "pair (" + S(i) + "," + S(j) + ") executed " + S(m) + " times, range type " + S(rt) + ", grid " + S(g)); break; }
            }
            for (auto& s : state) if (s.second != 4) res.fail("finish-missing", "P2D", "worker t" + S(s.first) + " did not complete initialize..finish (state " + S(s.second) + ")");
            if (state.empty()) res.fail("no-worker", "P2D", "no worker called initialize/finish");
            checkFinishExclusive(fin, res, "P2D");
            if (state.size() > 1) res.count("probe_p2d_parallel");
        }
    }

    void checkPWQ(const Plan& p, Result& res, int nadded) {
        std::vector<int> xb(nadded + 1, 0), xe(nadded + 1, 0), dt(nadded + 1, 0);
        std::vector<long> xeSeq(nadded + 1, -1), addSeq(nadded + 1, -1), xbSeq(nadded + 1, -1);
        bool dtorDone = false; long pendingAtDtor = -1;
        int qsize = std::max(1, (int)p.cfgn("qsize", 2));
        long waiting = 0, maxWaiting = 0;
        for (auto& e : ev) {
            switch (e.kind) {
            case EV_ADDB: addSeq[e.a] = e.seq; break;
            case EV_ADDE: waiting++; break;
            case EV_XB:
                if (e.a < 0 || e.a >= nadded) { res.fail("unknown-task", "PWQ", "unknown task executed"); break; }
                if (addSeq[e.a] < 0) res.fail("executed-before-added", "PWQ", "task executed before addTask");
                else if (!simv_hb(addSeq[e.a], e.seq)) res.fail("add-exec-unordered", "PWQ", "task execution not ordered after addTask");
                xb[e.a]++; xbSeq[e.a] = e.seq; break;
            case EV_XE: xe[e.a]++; xeSeq[e.a] = e.seq; break;
            case EV_TDTOR:
                if (e.a < 0 || e.a >= nadded) break;
                if (xe[e.a] == 0) res.fail("deleted-before-executed", "PWQ", "task " + S(e.a) + " deleted before it finished executing");
                dt[e.a]++; break;
            case EV_FLUSHE:
                for (int id = 0; id < e.b; ++id) if (xe[id] == 0) { res.fail("flush-early", "PWQ", "flush() returned while task " + S(id) + " (added before it) had not finished"); break; }
                for (int id = 0; id < e.b; ++id) if (xe[id] && !simv_hb(xeSeq[id], e.seq)) { res.fail("flush-unordered", "PWQ", "flush() return not ordered after completion of task " + S(id)); break; }
                res.count("probe_flush");
                break;
            case EV_DTORB: { long pend = 0; for (int id = 0; id < nadded; ++id) if (!xe[id]) pend++; pendingAtDtor = pend; if (pend) res.count("probe_dtor_pending"); break; }
            case EV_DTORE: dtorDone = true;
                for (int id = 0; id < nadded; ++id) {
                    if (xe[id] == 0) { res.fail("dtor-lost-task", "PWQ", "destructor returned but task " + S(id) + " was never executed"); break; }
                    if (dt[id] == 0) { res.fail("dtor-leaked-task", "PWQ", "destructor returned but task " + S(id) + " was never deleted"); break; }
                }
                break;
            }
        }
        (void)waiting; (void)maxWaiting; (void)qsize; (void)pendingAtDtor;
        if (!dtorDone) res.fail("no-return", "PWQ", "destructor did not return");
        for (int id = 0; id < nadded; ++id) {
            if (xb[id] > 1) { res.fail("task-repeated", "PWQ", "task " + S(id) + " executed " + S(xb[id]) + " times"); break; }
            if (dt[id] > 1) { res.fail("task-double-delete", "PWQ", "task " + S(id) + " deleted twice"); break; }
        }
        // events after the destructor returned?
        long dtorE = -1; for (auto& e : ev) if (e.kind == EV_DTORE) dtorE = e.seq;
        for (auto& e : ev) if (dtorE >= 0 && e.seq > dtorE) res.fail("after-dtor", "PWQ", "task activity after the queue was destroyed");
    }
};

int main(int argc, char** argv) { C33 e; return vf::engineMain(argc, argv, e); }
