/* simv.c — deterministic thread simulator. See simv.h.
 * MUST be compiled without sanitizers (plain C, no STL). */
#define _GNU_SOURCE
#include "simv.h"
#include <pthread.h>
#include <dlfcn.h>
#include <unistd.h>
#include <stdlib.h>
#include <stdio.h>
#include <string.h>
#include <errno.h>
#include <time.h>
#include <sys/syscall.h>
#include <linux/futex.h>

/* ---------------------------------------------------------------- real calls */
extern int __interceptor_pthread_create(pthread_t*, const pthread_attr_t*, void*(*)(void*), void*) __attribute__((weak));
extern int __interceptor_pthread_join(pthread_t, void**) __attribute__((weak));
extern int __interceptor_pthread_mutex_lock(pthread_mutex_t*) __attribute__((weak));
extern int __interceptor_pthread_mutex_trylock(pthread_mutex_t*) __attribute__((weak));
extern int __interceptor_pthread_mutex_unlock(pthread_mutex_t*) __attribute__((weak));
extern int __interceptor_pthread_cond_wait(pthread_cond_t*, pthread_mutex_t*) __attribute__((weak));
extern int __interceptor_pthread_cond_timedwait(pthread_cond_t*, pthread_mutex_t*, const struct timespec*) __attribute__((weak));
extern int __interceptor_pthread_cond_signal(pthread_cond_t*) __attribute__((weak));
extern int __interceptor_pthread_cond_broadcast(pthread_cond_t*) __attribute__((weak));

static int (*r_create)(pthread_t*, const pthread_attr_t*, void*(*)(void*), void*);
static int (*r_join)(pthread_t, void**);
static int (*r_lock)(pthread_mutex_t*);
static int (*r_trylock)(pthread_mutex_t*);
static int (*r_unlock)(pthread_mutex_t*);
static int (*r_cwait)(pthread_cond_t*, pthread_mutex_t*);
static int (*r_ctimedwait)(pthread_cond_t*, pthread_mutex_t*, const struct timespec*);
static int (*r_cclockwait)(pthread_cond_t*, pthread_mutex_t*, clockid_t, const struct timespec*);
static int (*r_csignal)(pthread_cond_t*);
static int (*r_cbroadcast)(pthread_cond_t*);
static long (*r_sysconf)(int);

static void *nextsym(const char *name, const char *ver) {
    void *p = 0;
    if (ver) p = dlvsym(RTLD_NEXT, name, ver);
    if (!p) p = dlsym(RTLD_NEXT, name);
    return p;
}
#define RESOLVE(var, icpt, name, ver) do { if (!(var)) { \
        if (icpt) *(void**)&(var) = (void*)(icpt); else *(void**)&(var) = nextsym(name, ver); } } while (0)

/* TSan intercepts libc memcpy/memset/realloc even when called from this uninstrumented
 * file, which would make the simulator's own tables visible to it. So: no libc memory
 * functions on shared data; loops the compiler cannot turn back into libcalls; tables
 * come from mmap. */
#include <sys/mman.h>
static void xcpy(void *d, const void *s, size_t n) {
    unsigned char *a = d; const unsigned char *b = s;
    size_t i = 0;
    for (; i + 8 <= n; i += 8) { *(uint64_t*)(a + i) = *(const uint64_t*)(b + i); __asm__ volatile("" ::: "memory"); }
    for (; i < n; ++i) { a[i] = b[i]; __asm__ volatile("" ::: "memory"); }
}
static void xzero(void *d, size_t n) {
    unsigned char *a = d; size_t i = 0;
    for (; i + 8 <= n; i += 8) { *(uint64_t*)(a + i) = 0; __asm__ volatile("" ::: "memory"); }
    for (; i < n; ++i) { a[i] = 0; __asm__ volatile("" ::: "memory"); }
}
static void *xmap(size_t n) {
    void *p = mmap(0, n, PROT_READ | PROT_WRITE, MAP_PRIVATE | MAP_ANONYMOUS | MAP_NORESERVE, -1, 0);
    if (p == MAP_FAILED) { fprintf(stderr, "simv: mmap failed\n"); _exit(73); }
    return p;
}

/* ---------------------------------------------------------------- PRNG */
static uint64_t rs[4];
static uint64_t splitmix(uint64_t *x) {
    uint64_t z = (*x += 0x9e3779b97f4a7c15ULL);
    z = (z ^ (z >> 30)) * 0xbf58476d1ce4e5b9ULL;
    z = (z ^ (z >> 27)) * 0x94d049bb133111ebULL;
    return z ^ (z >> 31);
}
static inline uint64_t rotl(uint64_t x, int k) { return (x << k) | (x >> (64 - k)); }
static uint64_t rnd(void) {
    uint64_t r = rotl(rs[1] * 5, 7) * 9, t = rs[1] << 17;
    rs[2] ^= rs[0]; rs[3] ^= rs[1]; rs[1] ^= rs[2]; rs[0] ^= rs[3]; rs[2] ^= t; rs[3] = rotl(rs[3], 45);
    return r;
}
static uint64_t rndn(uint64_t n) { return n ? rnd() % n : 0; }
static int rndppm(int ppm) { return ppm > 0 && (int)(rnd() % 1000000) < ppm; }

/* ---------------------------------------------------------------- state */
enum { T_FREE = 0, T_NEW, T_RUN, T_WANT_MUTEX, T_WAIT_COND, T_JOIN, T_DONE };
enum { OP_START = 1, OP_LOCK, OP_UNLOCK, OP_CWAIT, OP_CWAKE, OP_SIGNAL, OP_BCAST, OP_CREATE, OP_JOIN, OP_EXIT, OP_YIELD, OP_TRYLOCK, OP_LOG };

typedef struct {
    int state;
    void *obj, *obj2;        /* mutex / cond / join target */
    int jointarget;
    volatile int go;         /* futex word */
    pthread_t pth;
    void *(*start)(void*); void *arg;
    uint32_t vc[SIMV_MAXT];
    uint64_t prio;
    long last_run;
    long hold_until;
} sthread;

typedef struct { void *addr; int ord; int owner; int depth; int is_mutex; uint32_t vc[SIMV_MAXT]; } sobj;

#define NOBJ 1024
static sthread T[SIMV_MAXT];
static sobj *O;               /* NOBJ entries, allocated once */
static int nobj_used;
static int nthreads;
static int active;
static int cur;               /* running simulated thread */
static simv_config cfg;
static simv_fatal_fn fatal_cb;
static simv_stats st;
static __thread int my_tid = -1;
static int nproc_override;
static uint64_t lowprio;
static long pct_points[8];
static int starve_victim; static long starve_from;
#define MAXTRACE (1 << 16)
static int *rec_trace; static int rec_n;
static int trace_pos;

static void fatal(const char *cls, const char *fmt_detail);

static void hmix(uint64_t v) { st.hash ^= v; st.hash *= 0x100000001b3ULL; }
void simv_hash_mix(uint64_t v) { hmix(v); }

static sobj *getobj(void *addr, int is_mutex) {
    unsigned h = (unsigned)(((uintptr_t)addr >> 3) * 2654435761u) % NOBJ;
    for (int k = 0; k < NOBJ; ++k) {
        sobj *o = &O[(h + k) % NOBJ];
        if (o->addr == addr) return o;
        if (!o->addr) {
            if (nobj_used > NOBJ - 8) fatal("harness-limit", "too many sync objects");
            o->addr = addr; o->ord = nobj_used++; o->owner = -1; o->depth = 0; o->is_mutex = is_mutex;
            xzero(o->vc, sizeof o->vc);
            return o;
        }
    }
    fatal("harness-limit", "object table full");
    return 0;
}

static void futex_wait(volatile int *w, int val) { syscall(SYS_futex, w, FUTEX_WAIT_PRIVATE, val, 0, 0, 0); }
static void futex_wake(volatile int *w) { syscall(SYS_futex, w, FUTEX_WAKE_PRIVATE, 1, 0, 0, 0); }
static void park(int t) {
    while (__atomic_load_n(&T[t].go, __ATOMIC_SEQ_CST) == 0) futex_wait(&T[t].go, 0);
    __atomic_store_n(&T[t].go, 0, __ATOMIC_SEQ_CST);
}
static void unpark(int t) { __atomic_store_n(&T[t].go, 1, __ATOMIC_SEQ_CST); futex_wake(&T[t].go); }

static int enabled(int t) {
    sthread *x = &T[t];
    switch (x->state) {
    case T_NEW: case T_RUN: return 1;
    case T_WANT_MUTEX: { sobj *m = getobj(x->obj, 1); return m->owner < 0 || m->owner == t; }
    case T_JOIN: return T[x->jointarget].state == T_DONE;
    default: return 0;
    }
}

static char fatal_buf[4096];
static void describe_threads(char *buf, size_t n) {
    size_t p = 0;
    for (int t = 0; t < nthreads && p + 80 < n; ++t) {
        sthread *x = &T[t];
        const char *s = "?";
        int ord = -1, own = -2;
        switch (x->state) {
        case T_NEW: s = "new"; break; case T_RUN: s = "run"; break;
        case T_WANT_MUTEX: s = "lock"; { sobj *m = getobj(x->obj, 1); ord = m->ord; own = m->owner; } break;
        case T_WAIT_COND: s = "condwait"; ord = getobj(x->obj, 0)->ord; break;
        case T_JOIN: s = "join"; ord = x->jointarget; break;
        case T_DONE: s = "done"; break;
        }
        p += snprintf(buf + p, n - p, "t%d:%s", t, s);
        if (ord >= 0) p += snprintf(buf + p, n - p, "(o%d%s", ord, own > -2 ? "" : ")");
        if (own > -2) p += snprintf(buf + p, n - p, ",owner=t%d)", own);
        p += snprintf(buf + p, n - p, " ");
    }
}
static void fatal(const char *cls, const char *detail) {
    size_t l = snprintf(fatal_buf, sizeof fatal_buf, "%s | step=%ld | ", detail, st.steps);
    describe_threads(fatal_buf + l, sizeof fatal_buf - l);
    active = 0;
    if (fatal_cb) fatal_cb(cls, fatal_buf);
    fprintf(stderr, "simv fatal: %s: %s\n", cls, fatal_buf);
    _exit(70);
}

/* pick the next thread to run; self is the caller (may be not enabled) */
static int pick(int self) {
    int en[SIMV_MAXT], n = 0;
    st.steps++;
    int fair = st.steps > cfg.step_budget;
    if (st.steps > 2 * cfg.step_budget + 1000) fatal("livelock", "step budget exhausted twice (no progress after faults stopped)");
    if (fair) st.fair_phase_steps++;
    /* fault: spurious wake-up of one condvar waiter */
    if (!fair && rndppm(cfg.spurious_ppm)) {
        int w[SIMV_MAXT], nw = 0;
        for (int t = 0; t < nthreads; ++t) if (T[t].state == T_WAIT_COND) w[nw++] = t;
        if (nw) {
            int t = w[rndn(nw)];
            T[t].state = T_WANT_MUTEX; T[t].obj = T[t].obj2;
            st.spurious_fired++;
            hmix(0x5b00 + t);
        }
    }
    for (int t = 0; t < nthreads; ++t) if (enabled(t)) en[n++] = t;
    if (n == 0) fatal("deadlock", "no enabled thread");
    if (n > st.max_enabled) st.max_enabled = n;
    if (n == 1) return en[0];
    st.decisions++;
    int self_en = 0;
    for (int i = 0; i < n; ++i) if (en[i] == self) self_en = 1;
    int choice = -1;
    if (fair) {
        long best = -1;
        for (int i = 0; i < n; ++i) if (choice < 0 || T[en[i]].last_run < best) { choice = en[i]; best = T[en[i]].last_run; }
    } else if (cfg.trace && trace_pos < cfg.ntrace) {
        int v = cfg.trace[trace_pos++];
        if (v <= 0) choice = self_en ? self : en[0];
        else choice = en[(v - 1) % n];
    } else {
        /* delayed starts / starvation: filter */
        int f[SIMV_MAXT], nf = 0;
        for (int i = 0; i < n; ++i) {
            int t = en[i];
            if (T[t].state == T_NEW && T[t].hold_until > st.steps) continue;
            if (cfg.policy == SIMV_POL_STARVE && t == starve_victim && st.steps >= starve_from && st.steps < starve_from + cfg.starve_len) { st.starved_steps++; continue; }
            f[nf++] = t;
        }
        if (cfg.policy == SIMV_POL_STARVE && st.steps >= starve_from + cfg.starve_len) {
            starve_victim = (int)rndn(nthreads); starve_from = st.steps + (long)rndn(40);
        }
        if (nf == 0) { for (int i = 0; i < n; ++i) f[i] = en[i]; nf = n; }
        switch (cfg.policy) {
        case SIMV_POL_PCT: {
            for (int k = 0; k < cfg.pct_d && k < 8; ++k)
                if (pct_points[k] == st.steps && self >= 0) T[self].prio = lowprio--;
            uint64_t best = 0;
            for (int i = 0; i < nf; ++i) if (choice < 0 || T[f[i]].prio > best) { choice = f[i]; best = T[f[i]].prio; }
            break; }
        case SIMV_POL_QUANTUM: {
            int keep = 0;
            for (int i = 0; i < nf; ++i) if (f[i] == self) keep = 1;
            if (keep && rndn(cfg.quantum > 0 ? cfg.quantum : 1) != 0) choice = self;
            else choice = f[rndn(nf)];
            break; }
        default:
            choice = f[rndn(nf)];
        }
    }
    /* record */
    if (rec_n < MAXTRACE) {
        int v = 0;
        if (choice != self) for (int i = 0; i < n; ++i) if (en[i] == choice) v = i + 1;
        rec_trace[rec_n++] = v;
    }
    return choice;
}

static void reschedule(int self, int self_done) {
    int next = pick(self);
    T[next].last_run = st.steps;
    if (next == self) return;
    cur = next; st.switches++;
    unpark(next);
    if (!self_done) park(self);
}

static inline int simulated(void) { return active && my_tid >= 0; }

static void vc_join(uint32_t *dst, const uint32_t *src) {
    for (int i = 0; i < nthreads; ++i) if (src[i] > dst[i]) dst[i] = src[i];
}

/* ---------------------------------------------------------------- public control */
void simv_set_nproc(int n) { nproc_override = n; }
int simv_active(void) { return active; }
int simv_tid(void) { return active ? my_tid : -1; }

/* event log */
typedef struct { long seq; int tid, kind, a, b, c; long vc_off; int vc_n; } evrec;
#define CAPEV (4L << 20)
#define CAPVCP (64L << 20)
static evrec *EV; static long nev;
static uint32_t *VCP; static long nvcp;
static long *cells; static double *dcells;
static int cells_hi, dcells_hi, nthreads_hi;

void simv_begin(const simv_config *c, simv_fatal_fn on_fatal) {
    if (!O) { O = xmap(NOBJ * sizeof(sobj)); rec_trace = xmap(MAXTRACE * sizeof(int));
              cells = xmap(SIMV_NCELLS * sizeof(long)); dcells = xmap(SIMV_NCELLS * sizeof(double));
              EV = xmap(CAPEV * sizeof(evrec)); VCP = xmap(CAPVCP * sizeof(uint32_t)); }
    else { xzero(O, NOBJ * sizeof(sobj)); }
    xzero(cells, (size_t)cells_hi * sizeof(long)); xzero(dcells, (size_t)dcells_hi * sizeof(double));
    cells_hi = dcells_hi = 0;
    nobj_used = 0;
    xzero(T, sizeof(sthread) * (size_t)(nthreads_hi > 0 ? nthreads_hi : 1));
    nthreads_hi = 1;
    xzero(&st, sizeof st);
    st.hash = 0xcbf29ce484222325ULL;
    xcpy(&cfg, c, sizeof cfg); fatal_cb = on_fatal;
    if (cfg.step_budget <= 0) cfg.step_budget = 1000000;
    uint64_t s = cfg.seed;
    for (int i = 0; i < 4; ++i) rs[i] = splitmix(&s);
    lowprio = 1000;
    for (int k = 0; k < 8; ++k) pct_points[k] = (long)rndn(16ULL << rndn(7));
    starve_victim = (int)rndn(6); starve_from = (long)rndn(40);
    rec_n = 0; trace_pos = 0; nev = 0; nvcp = 0;
    if (cfg.nproc > 0) nproc_override = cfg.nproc;
    nthreads = 1; my_tid = 0; cur = 0;
    T[0].state = T_RUN; T[0].prio = (rnd() | 0x8000000000000000ULL);
    T[0].vc[0] = 1;
    active = 1;
}

void simv_end(void) {
    if (!active) return;
    for (int t = 1; t < nthreads; ++t)
        if (T[t].state != T_DONE) fatal("threads-alive", "simulated threads still alive at end of run");
    active = 0; my_tid = -1; st.ntrace = rec_n;
    nproc_override = 0;
}

void simv_get_stats(simv_stats *out) { st.ntrace = rec_n; xcpy(out, &st, sizeof st); }
int simv_get_trace(int *out, int max) { int n = rec_n < max ? rec_n : max; xcpy(out, rec_trace, n * sizeof(int)); return n; }

void simv_yield(void) {
    if (!simulated()) return;
    int self = my_tid;
    T[self].state = T_RUN;
    hmix(((uint64_t)self << 8) | OP_YIELD);
    reschedule(self, 0);
}

void simv_log(int kind, int a, int b, int c) {
    if (!active || my_tid < 0) return;          /* nothing is logged outside a simulation (warm-up runs real threads) */
    int self = my_tid;
    int n = nthreads;
    if (nev >= CAPEV || nvcp + n > CAPVCP) fatal("harness-limit", "event log full");
    evrec *e = &EV[nev];
    e->seq = nev; e->tid = self; e->kind = kind; e->a = a; e->b = b; e->c = c;
    T[self].vc[self]++; xcpy(VCP + nvcp, T[self].vc, n * sizeof(uint32_t));
    e->vc_off = nvcp; e->vc_n = n; nvcp += n; nev++;
    hmix(((uint64_t)self << 40) ^ ((uint64_t)kind << 32) ^ ((uint64_t)(uint32_t)a << 8) ^ (uint64_t)(uint32_t)b ^ ((uint64_t)(uint32_t)c << 20));
}
long simv_nevents(void) { return nev; }
void simv_event_get_light(long i, long *seq, int *tid, int *kind, int *a, int *b, int *c) {
    evrec *e = &EV[i]; *seq = e->seq; *tid = e->tid; *kind = e->kind; *a = e->a; *b = e->b; *c = e->c;
}
void simv_event_get(long i, simv_event *out) {
    evrec *e = &EV[i];
    out->seq = e->seq; out->tid = e->tid; out->kind = e->kind; out->a = e->a; out->b = e->b; out->c = e->c;
    xzero(out->vc, sizeof out->vc);
    xcpy(out->vc, VCP + e->vc_off, e->vc_n * sizeof(uint32_t));
}
int simv_hb(long i, long j) {
    if (i == j) return 0;
    evrec *a = &EV[i], *b = &EV[j];
    uint32_t ai = VCP[a->vc_off + a->tid];
    uint32_t bi = a->tid < b->vc_n ? VCP[b->vc_off + a->tid] : 0;
    return ai <= bi;
}
long simv_cell_get(int i) { return cells[i]; }
void simv_cell_set(int i, long v) { cells[i] = v; }
long simv_cell_add(int i, long d) { return cells[i] += d; }
double simv_dcell_get(int i) { return dcells[i]; }
void simv_dcell_set(int i, double v) { dcells[i] = v; }

/* Note: the run hash deliberately does not contain sync-object ordinals: std::mutex has a
 * trivial destructor, so a mutex created later in the same run may or may not reuse the
 * address (and hence the table entry) of a destroyed one depending on the heap state left by
 * earlier runs in this process; the hash must be a function of the plan alone. */
/* ---------------------------------------------------------------- interposed API */
static void *trampoline(void *p) {
    sthread *x = (sthread*)p;
    int self = (int)(x - T);
    my_tid = self;
    park(self);                       /* wait to be scheduled the first time */
    x->state = T_RUN;
    hmix(((uint64_t)self << 8) | OP_START);
    void *ret = x->start(x->arg);
    /* exit */
    hmix(((uint64_t)self << 8) | OP_EXIT);
    x->vc[self]++;
    x->state = T_DONE;
    my_tid = -1;
    if (active) reschedule(self, 1);
    return ret;
}

int pthread_create(pthread_t *th, const pthread_attr_t *attr, void *(*fn)(void*), void *arg) {
    RESOLVE(r_create, __interceptor_pthread_create, "pthread_create", 0);
    if (!simulated()) return r_create(th, attr, fn, arg);
    int self = my_tid;
    if (nthreads >= SIMV_MAXT) fatal("harness-limit", "too many threads");
    int slot = nthreads;
    sthread *x = &T[slot];
    xzero(x, sizeof *x);
    x->state = T_NEW; x->start = fn; x->arg = arg;
    x->prio = (rnd() | 0x8000000000000000ULL);
    nthreads++; if (nthreads > nthreads_hi) nthreads_hi = nthreads;
    xcpy(x->vc, T[self].vc, sizeof x->vc);
    x->vc[slot] = 1;
    T[self].vc[self]++;
    if (rndppm(cfg.delay_start_ppm)) { x->hold_until = st.steps + 1 + (long)rndn(30); st.delayed_starts++; }
    st.threads_created++;
    int r = r_create(th, attr, trampoline, x);
    if (r != 0) fatal("harness-limit", "pthread_create failed");
    x->pth = *th;
    T[self].state = T_RUN;
    hmix(((uint64_t)self << 8) | OP_CREATE);
    reschedule(self, 0);
    return 0;
}

int pthread_join(pthread_t th, void **ret) {
    RESOLVE(r_join, __interceptor_pthread_join, "pthread_join", 0);
    if (!simulated()) return r_join(th, ret);
    int self = my_tid, target = -1;
    for (int t = 1; t < nthreads; ++t) if (T[t].state != T_FREE && pthread_equal(T[t].pth, th)) target = t;
    if (target < 0) return r_join(th, ret);
    T[self].state = T_JOIN; T[self].jointarget = target;
    hmix(((uint64_t)self << 8) | OP_JOIN | ((uint64_t)target << 20));
    reschedule(self, 0);
    T[self].state = T_RUN;
    vc_join(T[self].vc, T[target].vc);
    T[target].pth = (pthread_t)0;
    return r_join(th, ret);
}

int pthread_mutex_lock(pthread_mutex_t *m) {
    RESOLVE(r_lock, __interceptor_pthread_mutex_lock, "pthread_mutex_lock", 0);
    if (!simulated()) return r_lock(m);
    int self = my_tid;
    sobj *o = getobj(m, 1);
    T[self].state = T_WANT_MUTEX; T[self].obj = m;
    hmix(((uint64_t)self << 8) | OP_LOCK);
    reschedule(self, 0);
    o->owner = self; o->depth++;
    vc_join(T[self].vc, o->vc);
    T[self].state = T_RUN;
    return r_lock(m);
}

int pthread_mutex_trylock(pthread_mutex_t *m) {
    RESOLVE(r_trylock, __interceptor_pthread_mutex_trylock, "pthread_mutex_trylock", 0);
    if (!simulated()) return r_trylock(m);
    int self = my_tid;
    sobj *o = getobj(m, 1);
    T[self].state = T_RUN;
    hmix(((uint64_t)self << 8) | OP_TRYLOCK);
    reschedule(self, 0);
    if (o->owner >= 0 && o->owner != self) return EBUSY;
    int r = r_trylock(m);
    if (r == 0) { o->owner = self; o->depth++; vc_join(T[self].vc, o->vc); }
    return r;
}

int pthread_mutex_unlock(pthread_mutex_t *m) {
    RESOLVE(r_unlock, __interceptor_pthread_mutex_unlock, "pthread_mutex_unlock", 0);
    if (!simulated()) return r_unlock(m);
    int self = my_tid;
    sobj *o = getobj(m, 1);
    if (o->owner == self) {
        if (--o->depth <= 0) { o->depth = 0; o->owner = -1; xcpy(o->vc, T[self].vc, sizeof o->vc); T[self].vc[self]++; }
    }
    int r = r_unlock(m);
    T[self].state = T_RUN;
    hmix(((uint64_t)self << 8) | OP_UNLOCK);
    reschedule(self, 0);
    return r;
}

static int sim_cond_wait(pthread_cond_t *c, pthread_mutex_t *m) {
    RESOLVE(r_unlock, __interceptor_pthread_mutex_unlock, "pthread_mutex_unlock", 0);
    RESOLVE(r_lock, __interceptor_pthread_mutex_lock, "pthread_mutex_lock", 0);
    int self = my_tid;
    sobj *o = getobj(m, 1);
    sobj *oc = getobj(c, 0);
    if (o->owner != self) fatal("harness-limit", "cond_wait without owning the mutex");
    o->depth = 0; o->owner = -1; xcpy(o->vc, T[self].vc, sizeof o->vc); T[self].vc[self]++;
    r_unlock(m);
    T[self].state = T_WAIT_COND; T[self].obj = c; T[self].obj2 = m;
    st.cond_waits++;
    hmix(((uint64_t)self << 8) | OP_CWAIT);
    reschedule(self, 0);
    /* woken (signal / broadcast / spurious), chosen, and the mutex is free */
    o->owner = self; o->depth = 1;
    vc_join(T[self].vc, o->vc);
    T[self].state = T_RUN;
    hmix(((uint64_t)self << 8) | OP_CWAKE);
    r_lock(m);
    return 0;
}

int pthread_cond_wait(pthread_cond_t *c, pthread_mutex_t *m) {
    if (!simulated()) { RESOLVE(r_cwait, __interceptor_pthread_cond_wait, "pthread_cond_wait", "GLIBC_2.3.2"); return r_cwait(c, m); }
    return sim_cond_wait(c, m);
}
int pthread_cond_timedwait(pthread_cond_t *c, pthread_mutex_t *m, const struct timespec *ts) {
    if (!simulated()) { RESOLVE(r_ctimedwait, __interceptor_pthread_cond_timedwait, "pthread_cond_timedwait", "GLIBC_2.3.2"); return r_ctimedwait(c, m, ts); }
    /* no timer in the simulated programs: a timed wait is a wait that may wake spuriously */
    return sim_cond_wait(c, m);
}
int pthread_cond_clockwait(pthread_cond_t *c, pthread_mutex_t *m, clockid_t clk, const struct timespec *ts) {
    if (!simulated()) { if (!r_cclockwait) *(void**)&r_cclockwait = nextsym("pthread_cond_clockwait", 0); return r_cclockwait(c, m, clk, ts); }
    return sim_cond_wait(c, m);
}

int pthread_cond_signal(pthread_cond_t *c) {
    if (!simulated()) { RESOLVE(r_csignal, __interceptor_pthread_cond_signal, "pthread_cond_signal", "GLIBC_2.3.2"); return r_csignal(c); }
    int self = my_tid;
    sobj *oc = getobj(c, 0);
    int w[SIMV_MAXT], nw = 0;
    for (int t = 0; t < nthreads; ++t) if (T[t].state == T_WAIT_COND && T[t].obj == (void*)c) w[nw++] = t;
    if (nw) {
        int t = w[nw > 1 ? rndn(nw) : 0];
        if (nw > 1) st.notify_choice++;
        T[t].state = T_WANT_MUTEX; T[t].obj = T[t].obj2;
    }
    T[self].state = T_RUN;
    hmix(((uint64_t)self << 8) | OP_SIGNAL | ((uint64_t)nw << 32));
    reschedule(self, 0);
    return 0;
}

int pthread_cond_broadcast(pthread_cond_t *c) {
    if (!simulated()) { RESOLVE(r_cbroadcast, __interceptor_pthread_cond_broadcast, "pthread_cond_broadcast", "GLIBC_2.3.2"); return r_cbroadcast(c); }
    int self = my_tid;
    sobj *oc = getobj(c, 0);
    int nw = 0;
    for (int t = 0; t < nthreads; ++t) if (T[t].state == T_WAIT_COND && T[t].obj == (void*)c) { T[t].state = T_WANT_MUTEX; T[t].obj = T[t].obj2; nw++; }
    T[self].state = T_RUN;
    hmix(((uint64_t)self << 8) | OP_BCAST | ((uint64_t)nw << 32));
    reschedule(self, 0);
    return 0;
}

long sysconf(int name) {
    if (name == _SC_NPROCESSORS_ONLN && nproc_override > 0) return nproc_override;
    if (!r_sysconf) *(void**)&r_sysconf = nextsym("sysconf", 0);
    return r_sysconf(name);
}
