// C17 — force totals are independent of threading and scheduling.
// Real GeneralForceSubsystem + ParallelExecutor under the deterministic thread
// simulator. Harness Force::Custom elements split every accumulation into
// load / yield / store, which is legal user code and the only way a cooperative
// scheduler can show what an OS pre-emption between load and store causes.
#include "Simbody.h"
#include "../common/common.h"
#include "simv.h"
#include "tharness.h"
#include <memory>

using namespace SimTK;
using vf::Plan; using vf::Op; using vf::Result; using vf::Rng;

// cells used for probes (uninstrumented side)
enum { CELL_CALLS_POS = 1, CELL_CALLS_VEL = 2, CELL_RMW = 3, CELL_RMW_PREEMPTED = 4, CELL_INDEX0_SHARED = 5, CELL_THREW = 6, CELL_ELEM_CALLS = 100 };

struct Coef { int kind; int idx; int src; double a, b, c, d; Vec3 dir, dir2; };

// contribution definition shared by the force element (with yields) and the reference (without)
struct HDef {
    bool parallel = false, posOnly = false;
    std::vector<Coef> mob, body;
    int yields = 1;
    int id = 0; long throwAt = -1;     // fault: throw from the throwAt-th calcForce call (1-based), after the first accumulation
    static double fval(const Coef& k, const State& s, bool posOnly) {
        const Vector& q = s.getQ(); const Vector& u = s.getU();
        double v = k.a * std::sin(k.b * q[k.src % q.size()] + k.c);
        if (!posOnly) v += k.d * u[k.src % u.size()] + 0.25 * k.a * std::cos(s.getTime() * k.b);
        return v;
    }
    void build(Rng& r, int nmob, int nbody) {
        int nm = r.range(0, 3), nb = r.range(nm == 0 ? 1 : 0, 2);
        for (int i = 0; i < nm; ++i) { Coef k; k.kind = 0; k.idx = (int)r.below(nmob); k.src = (int)r.below(64); k.a = r.uni(0.5, 9); k.b = r.uni(0.3, 2); k.c = r.uni(-3, 3); k.d = r.uni(-2, 2); mob.push_back(k); }
        for (int i = 0; i < nb; ++i) { Coef k; k.kind = 1; k.idx = 1 + (int)r.below(nbody); k.src = (int)r.below(64); k.a = r.uni(0.5, 9); k.b = r.uni(0.3, 2); k.c = r.uni(-3, 3); k.d = r.uni(-2, 2);
            k.dir = Vec3(r.uni(-1, 1), r.uni(-1, 1), r.uni(-1, 1)); k.dir2 = Vec3(r.uni(-1, 1), r.uni(-1, 1), r.uni(-1, 1)); body.push_back(k); }
    }
    // reference accumulation (no yields): adds to the arrays and to the magnitude arrays
    void addReference(const State& s, Vector_<SpatialVec>& bf, Vector& mf, Vector_<SpatialVec>& bmag, Vector& mmag) const {
        for (auto& k : mob) { double v = fval(k, s, posOnly); mf[k.idx] += v; mmag[k.idx] += std::abs(v); }
        for (auto& k : body) { double v = fval(k, s, posOnly); SpatialVec sv(v * k.dir, v * k.dir2); bf[k.idx] += sv;
            for (int a = 0; a < 2; ++a) for (int c = 0; c < 3; ++c) bmag[k.idx][a][c] += std::abs(sv[a][c]); }
    }
};

class HForce : public Force::Custom::Implementation {
public:
    explicit HForce(const HDef& d) : def(d) {}
    void calcForce(const State& s, Vector_<SpatialVec>& bodyForces, Vector_<Vec3>&, Vector& mobilityForces) const override {
        simv_cell_add(def.posOnly ? CELL_CALLS_POS : CELL_CALLS_VEL, 1);
        const bool fault = def.throwAt > 0 && simv_cell_add(CELL_ELEM_CALLS + def.id, 1) == def.throwAt;
        int done = 0;
        for (auto& k : def.mob) {
            if (fault && done++ == 1) injected();
            double v = HDef::fval(k, s, def.posOnly);
            double tmp = mobilityForces[k.idx];            // load
            preemptible();
            mobilityForces[k.idx] = tmp + v;               // store
        }
        for (auto& k : def.body) {
            if (fault && done++ == 1) injected();
            double v = HDef::fval(k, s, def.posOnly);
            SpatialVec tmp = bodyForces[k.idx];
            preemptible();
            bodyForces[k.idx] = tmp + SpatialVec(v * k.dir, v * k.dir2);
        }
        if (fault) injected();
    }
    static void injected() { simv_cell_set(CELL_THREW, 1); throw std::runtime_error("injected force-evaluation failure"); }
    Real calcPotentialEnergy(const State&) const override { return 0; }
    bool dependsOnlyOnPositions() const override { return def.posOnly; }
    bool shouldBeParallelIfPossible() const override { return def.parallel; }
private:
    void preemptible() const {
        if (!def.yields) return;
        simv_cell_add(CELL_RMW, 1);
        simv_stats a, b; simv_get_stats(&a);
        for (int i = 0; i < def.yields; ++i) simv_yield();
        simv_get_stats(&b);
        if (b.switches != a.switches) simv_cell_add(CELL_RMW_PREEMPTED, 1);
    }
    HDef def;
};

struct Elem { std::string kind; bool harness = false; HDef def; Force force; bool posOnly = false, parallel = false; };

struct C17 : vf::Engine {
    const char* property() const override { return "C17"; }
    void warmup() override {
        // single-threaded on purpose (see c33.cpp)
        Plan p = generate(12345, "quick", ""); p.setcfg("threads", 1);
        std::vector<Op> keep; for (auto& o : p.ops) if (o.kind != "threads") keep.push_back(o); p.ops = keep;
        execute(p);
    }

    Plan generate(uint64_t seed, const std::string& tier, const std::string& mode) override {
        Rng r(seed); Plan p; p.property = "C17"; p.seed = seed;
        th::genSched(p, r);
        int nb = r.range(2, 5);
        std::string model;
        for (int b = 0; b < nb; ++b) { static const char* T = "PSUGL"; model += T[r.below(5)]; model += std::to_string(r.below(b + 1)); model += ' '; }
        p.setcfg("model", model);
        p.setcfg("model_seed", (uint64_t)(r.next() >> 8));
        bool dflt = r.chance(0.12);
        int n = r.chance(0.15) ? 1 : (r.chance(0.7) ? r.range(2, 4) : r.range(2, 16));
        p.setcfg("threads", dflt ? 0 : n);
        p.setcfg("nproc", dflt ? n : r.range(1, 16));
        int ne = r.range(2, 8);
        bool anyPar = false;
        for (int e = 0; e < ne; ++e) {
            Op o = vf::mkop("elem");
            int k = (int)r.below(10);
            if (k < 6 || (e == ne - 1 && !anyPar)) {
                bool par = r.chance(0.6) || (e == ne - 1 && !anyPar); anyPar |= par;
                o.set("kind", "h").set("par", par ? 1 : 0).set("pos", r.chance(0.5) ? 1 : 0).set("seed", (long)(r.next() >> 16)).set("yield", r.chance(0.85) ? 1 : 0);
            } else {
                static const char* K[] = {"tpls", "mls", "mld", "tpld", "mcf", "cf"};
                o.set("kind", K[r.below(6)]).set("seed", (long)(r.next() >> 16));
            }
            if (r.chance(0.1)) o.set("off", 1);      // disabled by default
            p.ops.push_back(o);
        }
        int nh = r.range(2, 8);
        p.ops.push_back(vf::mkop("setq").set("seed", (long)(r.next() >> 16)));
        p.ops.push_back(vf::mkop("realize").set("stage", r.chance(0.5) ? 7 : 8));
        for (int h = 0; h < nh; ++h) {
            int k = (int)r.below(100);
            if (k < 22) p.ops.push_back(vf::mkop("setu").set("seed", (long)(r.next() >> 16)));
            else if (k < 36) p.ops.push_back(vf::mkop("setq").set("seed", (long)(r.next() >> 16)));
            else if (k < 44) p.ops.push_back(vf::mkop("sett").setr("t", r.uni(0, 10)));
            else if (k < 56) p.ops.push_back(vf::mkop("enable").set("e", (int)r.below(ne)).set("on", (int)r.below(2)));
            else if (k < 60) p.ops.push_back(vf::mkop("threads").set("n", r.range(1, 8)));
            else p.ops.push_back(vf::mkop("realize").set("stage", r.chance(0.6) ? 7 : (r.chance(0.5) ? 8 : r.range(4, 6))));
        }
        p.ops.push_back(vf::mkop("realize").set("stage", 7));
        if (mode == "faults") {
            int nf = r.range(1, 2);
            for (int f = 0; f < nf; ++f) p.faults.push_back(vf::mkop("throw").set("e", (int)r.below(ne)).set("at", r.range(1, 3)));
            if (r.chance(0.5)) p.setcfg("threads", 1);     // the single-thread path lets the exception reach the caller
            p.ops.push_back(vf::mkop("setu").set("seed", (long)(r.next() >> 16)));
            p.ops.push_back(vf::mkop("realize").set("stage", 7));
        }
        p.setcfg("step_budget", 200000);
        return p;
    }

    Result execute(const Plan& p) override {
        Result res;
        th::begin(p);
        for (int c = 1; c <= 6; ++c) simv_cell_set(c, 0);
        for (int c = 0; c < 64; ++c) simv_cell_set(CELL_ELEM_CALLS + c, 0);
        try { runHistory(p, res); }
        catch (const std::exception& e) { res.fail("exception", "exception", e.what()); }
        res.count("probe_rmw_windows", simv_cell_get(CELL_RMW));
        res.count("probe_rmw_preempted", simv_cell_get(CELL_RMW_PREEMPTED));
        th::end(p, res);
        return res;
    }

    void runHistory(const Plan& p, Result& res) {
        Rng mr((uint64_t)std::strtoull(p.cfg("model_seed", "1").c_str(), 0, 10));
        MultibodySystem sys; SimbodyMatterSubsystem matter(sys); GeneralForceSubsystem forces(sys);
        int nthreads = (int)p.cfgn("threads", 0);
        if (nthreads > 0) forces.setNumberOfThreads(nthreads);
        // ---- bodies
        std::vector<MobilizedBody> mobods; mobods.push_back(matter.updGround());
        { std::istringstream is(p.cfg("model", "P0 P1")); std::string tok;
          while (is >> tok) {
            char t = tok[0]; int par = std::atoi(tok.c_str() + 1) % (int)mobods.size();
            Body::Rigid body(MassProperties(mr.uni(0.5, 3), Vec3(mr.uni(-0.2, 0.2), mr.uni(-0.2, 0.2), mr.uni(-0.2, 0.2)), Inertia(mr.uni(1, 2), mr.uni(1, 2), mr.uni(1, 2))));
            Transform Xp(Rotation(mr.uni(-1, 1), Vec3(1, 2, 3).normalize()), Vec3(mr.uni(-1, 1), mr.uni(-1, 1), mr.uni(-1, 1)));
            Transform Xb(Vec3(mr.uni(-0.5, 0.5), mr.uni(-0.5, 0.5), mr.uni(-0.5, 0.5)));
            MobilizedBody& P = mobods[par];
            switch (t) {
            case 'S': mobods.push_back(MobilizedBody::Slider(P, Xp, body, Xb)); break;
            case 'U': mobods.push_back(MobilizedBody::Universal(P, Xp, body, Xb)); break;
            case 'G': mobods.push_back(MobilizedBody::Gimbal(P, Xp, body, Xb)); break;
            case 'L': mobods.push_back(MobilizedBody::Planar(P, Xp, body, Xb)); break;
            default:  mobods.push_back(MobilizedBody::Pin(P, Xp, body, Xb)); break;
            }
          } }
        int nbody = (int)mobods.size() - 1;
        if (nbody < 1) { mobods.push_back(MobilizedBody::Pin(mobods[0], Transform(), Body::Rigid(MassProperties(1, Vec3(0), Inertia(1))), Transform())); nbody = 1; }
        // number of mobilities is known only after realizeTopology; count from types
        int nmob = 0;
        { std::istringstream is(p.cfg("model", "P0 P1")); std::string tok; while (is >> tok) { char t = tok[0]; nmob += (t == 'U') ? 2 : (t == 'G' || t == 'L') ? 3 : 1; } if (nmob == 0) nmob = 1; }
        // ---- force elements
        std::vector<Elem> elems;
        int nHarnessPlanned = 0; for (auto& op : p.ops) if (op.kind == "elem" && op.str("kind", "h") == "h") ++nHarnessPlanned;
        for (auto& op : p.ops) {
            if (op.kind != "elem") continue;
            Elem e; e.kind = op.str("kind", "h");
            Rng er((uint64_t)op.num("seed", 1) * 7919 + 13);
            auto anyBody = [&]() -> MobilizedBody& { return mobods[1 + er.below(nbody)]; };
            auto rv = [&]() { return Vec3(er.uni(-1, 1), er.uni(-1, 1), er.uni(-1, 1)); };
            if (e.kind == "h") {
                e.harness = true; e.def.parallel = op.num("par", 0) != 0; e.def.posOnly = op.num("pos", 0) != 0; e.def.yields = (int)op.num("yield", 1);
                e.def.build(er, nmob, nbody);
                e.def.id = (int)elems.size() % 64;
                { int hidx = 0; for (auto& pe : elems) if (pe.harness) ++hidx;
                  for (auto& f : p.faults) if (f.kind == "throw" && nHarnessPlanned > 0 && (int)(f.num("e", 0) % nHarnessPlanned) == hidx) e.def.throwAt = std::max(1L, f.num("at", 1)); }
                e.force = Force::Custom(forces, new HForce(e.def));
                e.posOnly = e.def.posOnly; e.parallel = e.def.parallel;
            } else if (e.kind == "tpls") { MobilizedBody& a = anyBody(); MobilizedBody& b = mobods[er.below(nbody + 1)];
                e.force = Force::TwoPointLinearSpring(forces, a, rv(), b, rv() + Vec3(2, 0, 0), er.uni(1, 50), er.uni(0, 1)); e.posOnly = true;
            } else if (e.kind == "tpld") { MobilizedBody& a = anyBody(); MobilizedBody& b = mobods[er.below(nbody + 1)];
                e.force = Force::TwoPointLinearDamper(forces, a, rv(), b, rv() + Vec3(2, 0, 0), er.uni(0.5, 10));
            } else if (e.kind == "mls") { e.force = Force::MobilityLinearSpring(forces, anyBody(), MobilizerQIndex(0), er.uni(1, 50), er.uni(-1, 1)); e.posOnly = true;
            } else if (e.kind == "mld") { e.force = Force::MobilityLinearDamper(forces, anyBody(), MobilizerUIndex(0), er.uni(0.5, 10));
            } else if (e.kind == "mcf") { e.force = Force::MobilityConstantForce(forces, anyBody(), MobilizerUIndex(0), er.uni(-20, 20));
            } else { e.force = Force::ConstantForce(forces, anyBody(), rv(), 10 * rv()); e.kind = "cf"; }
            if (op.num("off", 0)) e.force.setDisabledByDefault(true);
            elems.push_back(e);
        }
        State s = sys.realizeTopology();
        sys.realizeModel(s);
        const int nq = s.getNQ(), nu = s.getNU();
        bool anyPosOnly = false, anyPar = false; for (auto& e : elems) { anyPosOnly |= e.posOnly; anyPar |= e.parallel; }
        vf::Hash modes;
        int nrealize = 0, nDyn = 0;
        std::set<int> seenModes;
        // ---- history
        for (auto& op : p.ops) {
            if (op.kind == "elem") continue;
            if (op.kind == "setq") { Rng r((uint64_t)op.num("seed", 1)); Vector q(nq); for (int i = 0; i < nq; ++i) q[i] = r.uni(-1.2, 1.2); s.updQ() = q; }
            else if (op.kind == "setu") { Rng r((uint64_t)op.num("seed", 1)); Vector u(nu); for (int i = 0; i < nu; ++i) u[i] = r.uni(-2, 2); s.updU() = u; }
            else if (op.kind == "sett") s.setTime(op.real("t", 0));
            else if (op.kind == "enable") { if (!elems.empty()) { Elem& e = elems[op.num("e", 0) % elems.size()]; if (op.num("on", 1)) e.force.enable(s); else e.force.disable(s); } }
            else if (op.kind == "threads") { forces.setNumberOfThreads((unsigned)std::max(1L, op.num("n", 1))); nthreads = (int)std::max(1L, op.num("n", 1)); }
            else if (op.kind == "realize") {
                int st = (int)op.num("stage", 7); st = std::max(4, std::min(8, st));
                bool wasDyn = s.getSystemStage() >= Stage::Dynamics;
                simv_cell_set(CELL_CALLS_POS, 0); simv_cell_set(CELL_CALLS_VEL, 0);
                bool threwOut = false;
                try { sys.realize(s, Stage(st)); }
                catch (const std::exception& e) { if (!simv_cell_get(CELL_THREW)) throw; threwOut = true; }
                ++nrealize;
                if (simv_cell_get(CELL_THREW)) {
                    // fault fired in this realization: with one thread the exception reached us, with more the
                    // worker swallowed it. Either way this realization is not checked; recover as every client
                    // of the library does: change the state (q, so that position-only caches are dropped too)
                    // and go on. Everything after that must be exact again, for every thread count.
                    simv_cell_set(CELL_THREW, 0);
                    res.count(threwOut ? "fault_force_throw_propagated" : "fault_force_throw_swallowed");
                    s.updQ()[0] += 0.0625;
                    continue;
                }
                if (st >= 7 && !wasDyn) {
                    ++nDyn;
                    int mode = !anyPosOnly ? 0 : (simv_cell_get(CELL_CALLS_POS) > 0 ? 1 : 2);
                    bool posEnabled = false; for (auto& e : elems) if (e.posOnly && !e.force.isDisabled(s)) posEnabled = true;
                    if (anyPosOnly && !posEnabled) mode = 3;   // cache exists but nothing to put into it
                    modes.mix(mode); seenModes.insert(mode);
                    int effThreads = nthreads > 0 ? nthreads : (int)p.cfgn("nproc", 1);
                    if (effThreads >= 2 && anyPar) res.count(std::string("probe_mode") + std::to_string(mode) + "_multithread");
                    checkTotals(sys, matter, s, elems, res, mode);
                    if (res.violation) return;
                }
            }
        }
        res.count("realizations", nrealize); res.count("dynamics_realizations", nDyn);
        res.nontrivial = false;
        int effThreads = nthreads > 0 ? nthreads : (int)p.cfgn("nproc", 1);
        bool anyNonPar = false; for (auto& e : elems) anyNonPar |= !e.parallel;
        ntFlag = effThreads >= 2 && anyPar && anyNonPar && nDyn >= 2;
        modeHash = modes.h; modeHash ^= (uint64_t)effThreads << 56;
        // destructors of sys (and its executor threads) run here, inside the simulation
    }
    bool ntFlag = false; uint64_t modeHash = 0;

    void checkTotals(const MultibodySystem& sys, const SimbodyMatterSubsystem& matter, const State& s, std::vector<Elem>& elems, Result& res, int mode) {
        const int nb = matter.getNumBodies(), nu = s.getNU();
        Vector_<SpatialVec> ref(nb, SpatialVec(Vec3(0), Vec3(0))), mag(nb, SpatialVec(Vec3(0), Vec3(0)));
        Vector mref(nu, 0.0), mmag(nu, 0.0);
        int k = 0;
        for (auto& e : elems) {
            ++k;
            if (e.force.isDisabled(s)) continue;
            if (e.harness) e.def.addReference(s, ref, mref, mag, mmag);
            else {
                Vector_<SpatialVec> bf; Vector_<Vec3> pf; Vector mf;
                e.force.calcForceContribution(s, bf, pf, mf);
                for (int b = 0; b < nb; ++b) { ref[b] += bf[b]; for (int a = 0; a < 2; ++a) for (int c = 0; c < 3; ++c) mag[b][a][c] += std::abs(bf[b][a][c]); }
                for (int u = 0; u < nu; ++u) { mref[u] += mf[u]; mmag[u] += std::abs(mf[u]); }
            }
        }
        const Vector_<SpatialVec>& got = sys.getRigidBodyForces(s, Stage::Dynamics);
        const Vector& mgot = sys.getMobilityForces(s, Stage::Dynamics);
        // Tolerance: "the same up to floating-point summation order". An element may itself add
        // several partial terms that cancel (a spring with both ends on one body), and the order in
        // which partial terms meet the other elements' terms differs between the reference and the
        // subsystem, so the bound uses the magnitude of everything any element contributes anywhere,
        // not the per-component net. A lost or doubled contribution is wrong by O(|term|) >> this.
        double scale = 1; for (int b = 0; b < nb; ++b) for (int a = 0; a < 2; ++a) for (int c = 0; c < 3; ++c) scale += mag[b][a][c];
        for (int u = 0; u < nu; ++u) scale += mmag[u];
        const double eps = 1e-11 * scale / 64;
        for (int b = 0; b < nb; ++b) for (int a = 0; a < 2; ++a) for (int c = 0; c < 3; ++c) {
            double tol = 64 * eps;
            if (!(std::abs(got[b][a][c] - ref[b][a][c]) <= tol)) {
                char buf[300]; std::snprintf(buf, sizeof buf, "rigid body force body=%d %s[%d]: got %.17g expected %.17g (sum of |terms| %.3g), mode %d", b, a ? "force" : "moment", c, got[b][a][c], ref[b][a][c], mag[b][a][c], mode);
                res.fail("force-total-mismatch", std::string("mode=") + std::to_string(mode), buf); return;
            }
        }
        for (int u = 0; u < nu; ++u) {
            double tol = 64 * eps;
            if (!(std::abs(mgot[u] - mref[u]) <= tol)) {
                char buf[300]; std::snprintf(buf, sizeof buf, "mobility force u=%d: got %.17g expected %.17g (sum of |terms| %.3g), mode %d", u, mgot[u], mref[u], mmag[u], mode);
                res.fail("force-total-mismatch", std::string("mode=") + std::to_string(mode), buf); return;
            }
        }
        res.count("totals_checked");
    }
};

struct C17wrap : C17 {
    Result execute(const Plan& p) override {
        Result r = C17::execute(p);
        r.nontrivial = ntFlag && r.counters["switches"] >= 4;
        vf::Hash h; h.mix(r.hash); h.mix(modeHash); r.key = h.h;
        return r;
    }
};

int main(int argc, char** argv) { C17wrap e; return vf::engineMain(argc, argv, e); }
