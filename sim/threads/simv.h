/* simv: deterministic thread simulator (engine T).
 *
 * Plain C interface. The implementation (simv.c) is compiled WITHOUT any
 * sanitizer and without the STL, so that under -fsanitize=thread the
 * scheduler's hand-off (raw futex) and its tables are invisible to TSan and
 * TSan therefore sees only the synchronisation of the program under test.
 *
 * The executable that links simv.c defines pthread_create/join,
 * pthread_mutex_lock/trylock/unlock, pthread_cond_wait/timedwait/clockwait/
 * signal/broadcast and sysconf itself; the dynamic linker resolves calls from
 * libSimTK*.so and libstdc++.so to these definitions (link-time interposition).
 */
#ifndef SIMV_H_
#define SIMV_H_
#include <stdint.h>
#ifdef __cplusplus
extern "C" {
#endif

#define SIMV_MAXT 160          /* max simulated threads per run (incl. main) */

enum { SIMV_POL_RANDOM = 0, SIMV_POL_PCT = 1, SIMV_POL_QUANTUM = 2, SIMV_POL_STARVE = 3 };

typedef struct {
    uint64_t seed;          /* scheduling PRNG seed */
    int      policy;        /* SIMV_POL_* */
    int      pct_d;         /* PCT: number of priority change points */
    int      quantum;       /* QUANTUM: mean run length */
    int      starve_len;    /* STARVE: steps the victim is held back */
    int      spurious_ppm;  /* spurious wake-up probability per decision, parts per million */
    int      delay_start_ppm;/* probability a just-created thread is held back */
    long     step_budget;   /* after this many steps: fault-free fair scheduling */
    int      nproc;         /* value sysconf(_SC_NPROCESSORS_ONLN) returns (0: real) */
    const int *trace;       /* optional explicit choice list (replay / minimisation) */
    int      ntrace;
} simv_config;

/* fatal callback: called (on the detecting thread) for deadlock / livelock /
 * unsupported operation; must not return. cls is the violation class. */
typedef void (*simv_fatal_fn)(const char *cls, const char *detail);

void simv_begin(const simv_config *cfg, simv_fatal_fn on_fatal);
void simv_end(void);                 /* all other sim threads must have finished */
int  simv_active(void);
int  simv_tid(void);                 /* -1 if the calling thread is not simulated */
void simv_yield(void);               /* cooperative scheduling point for harness code */
void simv_set_nproc(int n);          /* usable outside a simulation too */

/* statistics of the current / last run */
typedef struct {
    long steps, switches, decisions;
    long spurious_fired, delayed_starts, starved_steps, notify_choice;
    long threads_created, max_enabled;
    long cond_waits, cond_wait_immediate_ready;
    long fair_phase_steps;
    uint64_t hash;          /* hash of (thread, op kind, object ordinal) sequence */
    int  ntrace;            /* recorded choices */
} simv_stats;
void simv_get_stats(simv_stats *out);
int  simv_get_trace(int *out, int max);   /* recorded choice list */

/* ---- event log kept on the uninstrumented side (harness tasks write here) ---- */
typedef struct {
    long seq; int tid; int kind; int a; int b; int c;
    uint32_t vc[SIMV_MAXT];   /* vector clock of the thread when logged */
} simv_event;
void simv_log(int kind, int a, int b, int c);
long simv_nevents(void);
void simv_event_get(long i, simv_event *out);
void simv_event_get_light(long i, long *seq, int *tid, int *kind, int *a, int *b, int *c);
/* happens-before between two logged events (by vector clock): 1 if i -> j */
int  simv_hb(long i, long j);
void simv_hash_mix(uint64_t v);

/* shared scratch cells for harness tasks: accessed only through these calls so
 * that TSan does not see harness bookkeeping */
#define SIMV_NCELLS 65536
long simv_cell_get(int i);
void simv_cell_set(int i, long v);
long simv_cell_add(int i, long d);
/* shared double cells (for split read-modify-write of harness-owned sums) */
double simv_dcell_get(int i);
void   simv_dcell_set(int i, double v);

#ifdef __cplusplus
}
#endif
#endif
