// Shared glue between engine-T harnesses (C33, C17) and the simulator.
#ifndef THARNESS_H_
#define THARNESS_H_
#include "../common/common.h"
#include "simv.h"

namespace th {

inline void genSched(vf::Plan& p, vf::Rng& r) {
    p.setcfg("sched_seed", (uint64_t)(r.next() >> 1));
    int pol = (int)r.below(4);
    p.setcfg("policy", pol);
    p.setcfg("pct_d", r.range(1, 3));
    p.setcfg("quantum", r.range(2, 8));
    p.setcfg("starve_len", r.range(5, 80));
    static const int sp[] = {0, 0, 10000, 30000, 100000};
    p.setcfg("spurious_ppm", sp[r.below(5)]);
    p.setcfg("delay_start_ppm", r.chance(0.3) ? 300000 : 0);
}

inline void onFatal(const char* cls, const char* detail) {
    std::string c = cls;
    int code = 71;
    if (c.rfind("harness", 0) == 0) code = 73;
    vf::fatalViolation(c, detail, code);
}

inline std::vector<int>& traceStore() { static std::vector<int> t; return t; }

inline void begin(const vf::Plan& p) {
    simv_config c; std::memset(&c, 0, sizeof c);
    c.seed = (uint64_t)std::strtoull(p.cfg("sched_seed", "1").c_str(), 0, 10);
    c.policy = (int)p.cfgn("policy", 0) & 3;
    c.pct_d = (int)p.cfgn("pct_d", 2);
    c.quantum = (int)p.cfgn("quantum", 3);
    c.starve_len = (int)p.cfgn("starve_len", 20);
    c.spurious_ppm = (int)p.cfgn("spurious_ppm", 0);
    c.delay_start_ppm = (int)p.cfgn("delay_start_ppm", 0);
    c.step_budget = p.cfgn("step_budget", 200000);
    c.nproc = (int)p.cfgn("nproc", 0);
    std::vector<int>& tr = traceStore(); tr.clear();
    if (p.hascfg("trace")) { std::istringstream is(p.cfg("trace")); int v; while (is >> v) tr.push_back(v); }
    c.trace = tr.empty() ? nullptr : tr.data(); c.ntrace = (int)tr.size();
    simv_begin(&c, onFatal);
}

inline void end(const vf::Plan& p, vf::Result& res) {
    simv_end();
    simv_stats s; simv_get_stats(&s);
    res.hash = s.hash; res.key = s.hash;
    res.nontrivial = s.threads_created >= 2 && s.switches >= 4;
    res.simtime = (double)s.steps;
    res.count("steps", s.steps); res.count("switches", s.switches); res.count("decisions", s.decisions);
    res.count("fault_spurious_wakeup", s.spurious_fired); res.count("fault_delayed_start", s.delayed_starts);
    res.count("fault_starved_steps", s.starved_steps); res.count("fault_notify_choice", s.notify_choice);
    res.count("threads_created", s.threads_created); res.count("cond_waits", s.cond_waits);
    res.count("fair_phase_steps", s.fair_phase_steps);
    res.count(std::string("policy_") + std::to_string(p.cfgn("policy", 0) & 3));
    if (s.threads_created >= 2) res.count("runs_multithreaded");
}

} // namespace th
#endif
