// C16 — realization results depend only on current state values.
// A random multibody system is driven through a seeded history of variable changes,
// realizations to arbitrary stages, queries that trigger lazy evaluation, restarts by copy
// (variables survive, cache does not) and failed realizations; at checkpoints everything
// computed from the history State is compared with a FRESH State given the same values
// through the public setters.
#include "Simbody.h"
#include "../common/common.h"
#include <memory>
using namespace SimTK;
using vf::Plan; using vf::Op; using vf::Result; using vf::Rng;

struct ThrowCtl { long calls = 0, throwAt = -1, fired = 0; int stage = 7; };   // stage: which realization of the harness element fails (3 Instance, 5 Position, 6 Velocity, 7 Dynamics = calcForce)

// harness force element whose single parameter lives in a discrete variable with the invalidation
// stage a careful user would choose (Position if it depends only on positions, else Dynamics)
class HForce : public Force::Custom::Implementation {
public:
    HForce(const GeneralForceSubsystem& fs, bool posOnly, int nb, uint64_t seed, ThrowCtl* tc) : fs(fs), posOnly(posOnly), nb(nb), seed(seed), tc(tc) {}
    void realizeTopology(State& s) const override { ix = fs.allocateDiscreteVariable(s, posOnly ? Stage::Position : Stage::Dynamics, new Value<Real>(1.0)); }
    Real getParam(const State& s) const { return Value<Real>::downcast(fs.getDiscreteVariable(s, ix)); }
    void setParam(State& s, Real v) const { Value<Real>::updDowncast(fs.updDiscreteVariable(s, ix)) = v; }
    void calcForce(const State& s, Vector_<SpatialVec>& bf, Vector_<Vec3>&, Vector& mf) const override {
        hit(7);
        Rng r(seed); const Real p = getParam(s); const Vector& q = s.getQ(); const Vector& u = s.getU();
        for (int k = 0; k < 2 && mf.size(); ++k) { int i = (int)r.below(mf.size()); Real v = p * std::sin(0.7 * q[r.below(q.size())] + k); if (!posOnly) v += 0.3 * p * u[r.below(u.size())] + 0.1 * p * s.getTime(); mf[i] += v; }
        int b = 1 + (int)r.below(nb); Real v = p * std::cos(0.5 * q[r.below(q.size())]); bf[b] += SpatialVec(Vec3(v, 0.5 * v, -v), Vec3(-v, v, 0.25 * v));
    }
    void hit(int st) const { if (tc && tc->stage == st && ++tc->calls == tc->throwAt) { tc->fired++; throw std::runtime_error("injected realization failure"); } }
    void realizeInstance(const State&) const override { hit(3); }
    void realizePosition(const State&) const override { hit(5); }
    void realizeVelocity(const State&) const override { hit(6); }
    Real calcPotentialEnergy(const State& s) const override { return posOnly ? 0.125 * getParam(s) : 0; }
    bool dependsOnlyOnPositions() const override { return posOnly; }
    const GeneralForceSubsystem& fs; bool posOnly; int nb; uint64_t seed; ThrowCtl* tc; mutable DiscreteVariableIndex ix;
};

// event witnesses: functions of q (Position), u (Velocity) and of a force parameter (Dynamics)
class WitHandler : public TriggeredEventHandler {
public:
    WitHandler(Stage st, std::function<Real(const State&)> f) : TriggeredEventHandler(st), f(f) {}
    Real getValue(const State& s) const override { return f(s); }
    void handleEvent(State&, Real, bool&) const override {}
    std::function<Real(const State&)> f;
};
struct Elem { std::string kind; Force f; const HForce* h = nullptr; };

struct C16 : vf::Engine {
    const char* property() const override { return "C16"; }

    Plan generate(uint64_t seed, const std::string& tier, const std::string& mode) override {
        Rng r(seed); Plan p; p.property = "C16"; p.seed = seed;
        bool faults = mode == "faults";
        int nb = r.range(2, 6); std::string model;
        for (int b = 0; b < nb; ++b) { static const char* T = "PSUBF"; int t = (int)r.below(10); char c = t < 4 ? 'P' : t < 6 ? 'S' : t < 7 ? 'U' : t < 9 ? 'B' : 'F'; (void)T; model += c; model += std::to_string(r.below(b + 1)); model += ' '; }
        p.setcfg("model", model); p.setcfg("model_seed", (uint64_t)(r.next() >> 8));
        int ne = r.range(2, 7);
        for (int e = 0; e < ne; ++e) { static const char* K[] = {"mls", "mls", "mld", "mcf", "tpls", "tpld", "cf", "hp", "hv", "stop", "df", "df", "thermo"}; p.ops.push_back(vf::mkop("elem").set("kind", K[r.below(13)]).set("seed", (long)(r.next() >> 16))); }
        int nc = r.chance(0.5) ? 0 : r.range(1, 2);
        for (int c = 0; c < nc; ++c) { static const char* CK[] = {"rod", "rod", "ball", "ball", "cspeed", "ccoord", "cacc"}; p.ops.push_back(vf::mkop("cons").set("kind", CK[r.below(7)]).set("seed", (long)(r.next() >> 16))); }
        int nm = r.chance(0.6) ? 0 : r.range(1, 2);
        for (int c = 0; c < nm; ++c) p.ops.push_back(vf::mkop("motion").set("seed", (long)(r.next() >> 16)));
        int nops = r.range(5, tier == "thorough" ? 80 : 45);
        for (int k = 0; k < nops; ++k) {
            int w = (int)r.below(100); Op o;
            if (w < 8) o = vf::mkop("sett");
            else if (w < 16) o = vf::mkop("setq").set("seed", (long)(r.next() >> 16));
            else if (w < 21) o = vf::mkop("setq1").set("i", (int)r.below(32));
            else if (w < 29) o = vf::mkop("setu").set("seed", (long)(r.next() >> 16));
            else if (w < 43) o = vf::mkop("param").set("e", (int)r.below(ne)).setr("f", r.pick(std::vector<double>{1.5, 2.0, 3.0, 0.4, 0.0})).set("which", (int)r.below(3));
            else if (w < 50) o = vf::mkop("enable").set("e", (int)r.below(ne)).set("on", (int)r.below(2));
            else if (w < 51) o = vf::mkop("cenable").set("c", (int)r.below(3)).set("on", (int)r.below(2));
            else if (w < 52 && r.chance(0.5)) o = vf::mkop("menable").set("c", (int)r.below(3)).set("on", (int)r.below(2));
            else if (w < 52) o = vf::mkop("cparam").set("c", (int)r.below(3)).setr("v", r.chance(0.2) ? 0.0 : r.uni(-1.5, 1.5));
            else if (w < 53) o = vf::mkop("cparam").set("c", (int)r.below(3)).setr("v", r.chance(0.2) ? 0.0 : r.uni(-1.5, 1.5));
            else if (w < 54) o = vf::mkop("meas").set("what", (int)r.below(3)).setr("v", r.uni(-2, 2));
            else if (w < 59) o = vf::mkop("lock").set("b", (int)r.below(nb)).set("level", (int)r.below(4));
            else if (w < 65) o = vf::mkop("grav").set("what", (int)r.below(6)).set("b", (int)r.below(nb)).setr("v", r.chance(0.3) ? 0.0 : r.uni(0, 20));   // exactly zero gravity is a special case in Force::Gravity
            else if (w < 68) o = vf::mkop("euler").set("on", (int)r.below(2));
            else if (w < 82) o = vf::mkop("realize").set("stage", r.range(4, 8));
            else if (w < 90) o = vf::mkop("query").set("what", (int)r.below(5)).set("b", (int)r.below(nb)).set("e", (int)r.below(ne));
            else if (w < 94) o = vf::mkop("copy").set("how", (int)r.below(3));
            else o = vf::mkop("check");
            p.ops.push_back(o);
        }
        if (faults) { int nf = r.range(1, 2); for (int i = 0; i < nf; ++i) p.faults.push_back(vf::mkop("throw").set("at", r.range(1, 6)).set("stage", r.pick(std::vector<int>{7, 7, 7, 3, 5, 6}))); }
        return p;
    }

    // ------------------------------------------------------------------
    struct Sys {
        MultibodySystem sys; SimbodyMatterSubsystem matter; GeneralForceSubsystem forces; Force::Gravity gravity;
        std::vector<MobilizedBody> mob; std::vector<Elem> elems; std::vector<Constraint> cons; std::vector<std::string> consKind; std::vector<Motion> motions; ThrowCtl tc;
        // measures with state behind them: an Integrate (a z variable) and a Variable (a discrete variable), each with a consumer
        std::unique_ptr<Measure::Integrate> mInt; std::unique_ptr<Measure::Variable> mVar; std::vector<Measure> mAll;
        Sys() : matter(sys), forces(sys), gravity(forces, matter, -YAxis, 9.8) {}
    };

    void addWitnesses(Sys& S) {
        S.sys.addEventHandler(new WitHandler(Stage::Position, [](const State& s) { return s.getNQ() ? std::sin(s.getQ()[0]) + 0.3 * s.getQ()[s.getNQ() - 1] - 0.1 : 0.0; }));
        S.sys.addEventHandler(new WitHandler(Stage::Velocity, [](const State& s) { return s.getNU() ? s.getU()[0] - 0.2 * s.getU()[s.getNU() - 1] + 0.05 * s.getTime() : 0.0; }));
        const HForce* hf = nullptr; for (auto& e : S.elems) if (e.h) { hf = e.h; break; }
        if (hf) S.sys.addEventHandler(new WitHandler(Stage::Dynamics, [hf](const State& s) { return hf->getParam(s) - 1.7; }));
        MultibodySystem* sys = &S.sys; S.sys.addEventHandler(new WitHandler(Stage::Acceleration, [sys](const State& s) { return s.getNU() ? s.getUDot()[0] : 0.0; }));
    }
    void build(Sys& S, const Plan& p) {
        Rng mr((uint64_t)std::strtoull(p.cfg("model_seed", "1").c_str(), 0, 10));
        S.forces.setNumberOfThreads(1);
        S.mob.push_back(S.matter.updGround());
        std::istringstream is(p.cfg("model", "P0 P1")); std::string tok;
        while (is >> tok) {
            char t = tok[0]; int par = std::atoi(tok.c_str() + 1) % (int)S.mob.size();
            Body::Rigid body(MassProperties(mr.uni(0.5, 3), Vec3(mr.uni(-0.2, 0.2), mr.uni(-0.2, 0.2), mr.uni(-0.2, 0.2)), Inertia(mr.uni(1, 2), mr.uni(1, 2), mr.uni(1, 2))));
            Transform Xp(Rotation(mr.uni(-1, 1), Vec3(1, 2, 3).normalize()), Vec3(mr.uni(-1, 1), mr.uni(-1, 1), mr.uni(-1, 1))), Xb(Vec3(mr.uni(-0.5, 0.5), mr.uni(-0.5, 0.5), mr.uni(-0.5, 0.5)));
            MobilizedBody& P = S.mob[par];
            switch (t) {
            case 'S': S.mob.push_back(MobilizedBody::Slider(P, Xp, body, Xb)); break;
            case 'U': S.mob.push_back(MobilizedBody::Universal(P, Xp, body, Xb)); break;
            case 'B': S.mob.push_back(MobilizedBody::Ball(P, Xp, body, Xb)); break;
            case 'F': S.mob.push_back(MobilizedBody::Free(P, Xp, body, Xb)); break;
            default:  S.mob.push_back(MobilizedBody::Pin(P, Xp, body, Xb)); break;
            }
        }
        if (S.mob.size() < 2) S.mob.push_back(MobilizedBody::Pin(S.mob[0], Transform(), Body::Rigid(MassProperties(1, Vec3(0), Inertia(1))), Transform()));
        const int nb = (int)S.mob.size() - 1;
        for (auto& op : p.ops) {
            if (op.kind == "elem") {
                Elem e; e.kind = op.str("kind", "mls"); Rng er((uint64_t)op.num("seed", 1) * 7919 + 13);
                auto anyBody = [&]() -> MobilizedBody& { return S.mob[1 + er.below(nb)]; };
                auto rv = [&]() { return Vec3(er.uni(-1, 1), er.uni(-1, 1), er.uni(-1, 1)); };
                if (e.kind == "mls") e.f = Force::MobilityLinearSpring(S.forces, anyBody(), MobilizerQIndex(0), er.uni(5, 50), er.uni(-1, 1));
                else if (e.kind == "mld") e.f = Force::MobilityLinearDamper(S.forces, anyBody(), MobilizerUIndex(0), er.chance(0.15) ? 0.0 : er.uni(0.5, 10));
                else if (e.kind == "mcf") e.f = Force::MobilityConstantForce(S.forces, anyBody(), MobilizerUIndex(0), er.uni(2, 20));
                else if (e.kind == "stop") e.f = Force::MobilityLinearStop(S.forces, anyBody(), MobilizerQIndex(0), er.uni(50, 500), er.chance(0.4) ? 0.0 : er.uni(0.1, 1), -0.3, 0.3);   // a purely elastic stop (dissipation exactly 0) is a natural special case
                else if (e.kind == "tpls") { MobilizedBody& a = anyBody(); e.f = Force::TwoPointLinearSpring(S.forces, a, rv(), S.mob[er.below(nb + 1)], rv() + Vec3(3, 0, 0), er.uni(1, 50), er.uni(0, 1)); }
                else if (e.kind == "tpld") { MobilizedBody& a = anyBody(); e.f = Force::TwoPointLinearDamper(S.forces, a, rv(), S.mob[er.below(nb + 1)], rv() + Vec3(3, 0, 0), er.uni(0.5, 10)); }
                else if (e.kind == "cf") e.f = Force::ConstantForce(S.forces, anyBody(), rv(), 10 * rv());
                else if (e.kind == "df") e.f = Force::DiscreteForces(S.forces, S.matter);
                else if (e.kind == "thermo") { bool have = false; for (auto& x : S.elems) if (x.kind == "thermo") have = true; if (have) continue; e.f = Force::Thermostat(S.forces, S.matter, 0.5, er.uni(50, 300), er.uni(0.1, 1), 2); }
                else { HForce* h = new HForce(S.forces, e.kind == "hp", nb, (uint64_t)op.num("seed", 1), &S.tc); e.h = h; e.f = Force::Custom(S.forces, h); if (e.kind != "hp") e.kind = "hv"; }
                S.elems.push_back(e);
            } else if (op.kind == "motion") {
                Rng cr((uint64_t)op.num("seed", 1) * 131 + 3); MobilizedBody& a = S.mob[1 + cr.below(nb)];
                bool dup = false; for (auto& mo : S.motions) if (mo.getMobilizedBody().getMobilizedBodyIndex() == a.getMobilizedBodyIndex()) dup = true;
                if (dup) continue;
                int lv = (int)cr.below(3); Motion::Level L = lv == 0 ? Motion::Position : lv == 1 ? Motion::Velocity : Motion::Acceleration;
                if (cr.chance(0.5)) S.motions.push_back(Motion::Sinusoid(a, L, cr.uni(0.2, 1), cr.uni(0.5, 3), cr.uni(0, 3)));
                else S.motions.push_back(Motion::Steady(a, cr.uni(-1, 1)));
            } else if (op.kind == "cons") {
                Rng cr((uint64_t)op.num("seed", 1) * 31 + 7); MobilizedBody& a = S.mob[1 + cr.below(nb)]; MobilizedBody& b = S.mob[cr.below(nb + 1)];
                { const std::string ck0 = op.str("kind", "rod"); if ((ck0 == "rod" || ck0 == "ball") && a.getMobilizedBodyIndex() == b.getMobilizedBodyIndex()) continue; }
                const std::string ck = op.str("kind", "rod");
                if (ck == "rod") S.cons.push_back(Constraint::Rod(a, Vec3(0.1, 0, 0), b, Vec3(0, 0.2, 0), cr.uni(0.5, 2)));
                else if (ck == "cspeed") S.cons.push_back(Constraint::ConstantSpeed(a, MobilizerUIndex(0), cr.uni(-1, 1)));
                else if (ck == "ccoord") S.cons.push_back(Constraint::ConstantCoordinate(a, MobilizerQIndex(0), cr.uni(-0.5, 0.5)));
                else if (ck == "cacc") S.cons.push_back(Constraint::ConstantAcceleration(a, MobilizerUIndex(0), cr.uni(-2, 2)));
                else S.cons.push_back(Constraint::Ball(a, Vec3(0.1, 0, 0), b, Vec3(0, 0.2, 0)));
                S.consKind.push_back(ck);
            }
        }
        addWitnesses(S);
        { Subsystem& sub = S.sys.updDefaultSubsystem();
          S.mInt.reset(new Measure::Integrate(sub, Measure::Sinusoid(sub, 1.5, 2.0, 0.3), Measure::Constant(sub, 0.25)));
          S.mVar.reset(new Measure::Variable(sub, Stage::Position, 0.75));
          S.mAll.push_back(*S.mInt); S.mAll.push_back(*S.mVar);
          S.mAll.push_back(Measure::Plus(sub, *S.mInt, *S.mVar)); S.mAll.push_back(Measure::Scale(sub, 3.0, *S.mInt)); S.mAll.push_back(Measure::Minus(sub, Measure::Time(sub), *S.mVar)); }
    }

    // everything computed from a realized State, as one flat vector
    static void snapshot(Sys& S, const State& s, std::vector<double>& out, std::vector<std::string>* names = nullptr) {
        auto put = [&](double v, const char* nm, int i) { out.push_back(v); if (names) names->push_back(std::string(nm) + "[" + std::to_string(i) + "]"); };
        S.sys.realize(s, Stage::Acceleration);
        int k = 0;
        for (auto& m : S.mob) {
            const Transform& X = m.getBodyTransform(s); for (int i = 0; i < 3; ++i) for (int j = 0; j < 3; ++j) put(X.R()[i][j], "bodyRotation", k); for (int i = 0; i < 3; ++i) put(X.p()[i], "bodyPosition", k);
            const SpatialVec& V = m.getBodyVelocity(s), A = m.getBodyAcceleration(s); for (int a = 0; a < 2; ++a) for (int i = 0; i < 3; ++i) { put(V[a][i], "bodyVelocity", k); put(A[a][i], "bodyAcceleration", k); }
            ++k;
        }
        const Vector_<SpatialVec>& F = S.sys.getRigidBodyForces(s, Stage::Dynamics); for (int b = 0; b < F.size(); ++b) for (int a = 0; a < 2; ++a) for (int i = 0; i < 3; ++i) put(F[b][a][i], "appliedBodyForce", b);
        const Vector& mf = S.sys.getMobilityForces(s, Stage::Dynamics); for (int i = 0; i < mf.size(); ++i) put(mf[i], "appliedMobilityForce", i);
        put(S.sys.calcPotentialEnergy(s), "potentialEnergy", 0); put(S.sys.calcKineticEnergy(s), "kineticEnergy", 0);
        const Vector& ud = s.getUDot(); for (int i = 0; i < ud.size(); ++i) put(ud[i], "udot", i);
        const Vector& mu = s.getMultipliers(); for (int i = 0; i < mu.size(); ++i) put(mu[i], "multiplier", i);
        const Vector& qe = s.getQErr(); for (int i = 0; i < qe.size(); ++i) put(qe[i], "qerr", i);
        const Vector& ue = s.getUErr(); for (int i = 0; i < ue.size(); ++i) put(ue[i], "uerr", i);
        const Vector& ae = s.getUDotErr(); for (int i = 0; i < ae.size(); ++i) put(ae[i], "udoterr", i);
        { const Vector& ev = s.getEventTriggers(); for (int i = 0; i < ev.size(); ++i) put(ev[i], "eventWitness", i); }
        const Vector_<SpatialVec>& G = S.gravity.getBodyForces(s); for (int b = 0; b < G.size(); ++b) for (int i = 0; i < 3; ++i) put(G[b][1][i], "gravityBodyForce", b);
        S.matter.realizeCompositeBodyInertias(s);
        for (int b = 1; b < (int)S.mob.size(); ++b) { const SpatialInertia& I = S.matter.getCompositeBodyInertia(s, S.mob[b].getMobilizedBodyIndex()); put(I.getMass(), "compositeMass", b); for (int i = 0; i < 3; ++i) put(I.getMassCenter()[i], "compositeCOM", b); }
        S.matter.realizeArticulatedBodyInertias(s);
        for (int b = 1; b < (int)S.mob.size(); ++b) { const ArticulatedInertia& P = S.matter.getArticulatedBodyInertia(s, S.mob[b].getMobilizedBodyIndex()); const SpatialMat M = P.toSpatialMat(); for (int i = 0; i < 3; ++i) { put(M(0, 0)(i, i), "articulatedInertia", b); put(M(1, 1)(i, i), "articulatedInertia", b); put(M(0, 1)(i, (i + 1) % 3), "articulatedInertia", b); } }
        { const Vec3 com = S.matter.calcSystemMassCenterLocationInGround(s); const SpatialVec mom = S.matter.calcSystemCentralMomentum(s); for (int i = 0; i < 3; ++i) { put(com[i], "systemCOM", 0); put(mom[0][i], "centralMomentum", 0); put(mom[1][i], "centralMomentum", 0); } }
        { const Vector& qd = s.getQDot(); for (int i = 0; i < qd.size(); ++i) put(qd[i], "qdot", i); const Vector& qdd = s.getQDotDot(); for (int i = 0; i < qdd.size(); ++i) put(qdd[i], "qdotdot", i); }
        for (auto& mo : S.motions) put(mo.isDisabled(s) ? 0 : 1, "motionEnabled", 0);
        Vector_<SpatialVec> reac; S.matter.calcMobilizerReactionForces(s, reac); for (int b = 0; b < reac.size(); ++b) for (int a = 0; a < 2; ++a) for (int i = 0; i < 3; ++i) put(reac[b][a][i], "reactionForce", b);
        // measures last: they have listed findings, which must not hide a difference in anything else
        { static const char* MN[] = {"measure:Integrate", "measure:Variable", "measure:Plus(Integrate,Variable)", "measure:Scale(Integrate)", "measure:Minus(Time,Variable)"};
          for (size_t i = 0; i < S.mAll.size(); ++i) put(S.mAll[i].getValue(s), MN[i < 5 ? i : 4], 0); }

    }

    // a fresh State given the same values through the public setters, in one canonical order
    State freshLike(Sys& S, const State& s) {
        State f = S.sys.getDefaultState();
        S.matter.setUseEulerAngles(f, S.matter.getUseEulerAngles(s));
        S.sys.realizeModel(f);
        S.gravity.setMagnitude(f, S.gravity.getMagnitude(s)); S.gravity.setDownDirection(f, S.gravity.getDownDirection(s)); S.gravity.setZeroHeight(f, S.gravity.getZeroHeight(s));
        for (auto& m : S.mob) if (!m.isGround()) S.gravity.setBodyIsExcluded(f, m.getMobilizedBodyIndex(), S.gravity.getBodyIsExcluded(s, m.getMobilizedBodyIndex()));
        for (auto& e : S.elems) {
            if (e.kind == "mls") { auto& x = Force::MobilityLinearSpring::downcast(e.f); x.setStiffness(f, x.getStiffness(s)); x.setQZero(f, x.getQZero(s)); }
            else if (e.kind == "mld") { auto& x = Force::MobilityLinearDamper::downcast(e.f); x.setDamping(f, x.getDamping(s)); }
            else if (e.kind == "mcf") { auto& x = Force::MobilityConstantForce::downcast(e.f); x.setForce(f, x.getForce(s)); }
            else if (e.kind == "stop") { auto& x = Force::MobilityLinearStop::downcast(e.f); x.setMaterialProperties(f, x.getStiffness(s), x.getDissipation(s)); x.setBounds(f, x.getLowerBound(s), x.getUpperBound(s)); }
            else if (e.h) e.h->setParam(f, e.h->getParam(s));
            else if (e.kind == "df") { auto& x = Force::DiscreteForces::downcast(e.f); S.sys.realize(s, Stage::Instance); S.sys.realize(f, Stage::Instance); Vector mfv = x.getAllMobilityForces(s); Vector_<SpatialVec> bfv = x.getAllBodyForces(s); x.setAllMobilityForces(f, mfv); x.setAllBodyForces(f, bfv); }
            else if (e.kind == "thermo") { auto& x = Force::Thermostat::downcast(e.f); S.sys.realize(s, Stage::Instance); S.sys.realize(f, Stage::Instance); x.setBathTemperature(f, x.getBathTemperature(s)); x.setRelaxationTime(f, x.getRelaxationTime(s)); }
            if (e.f.isDisabled(s)) e.f.disable(f); else e.f.enable(f);
        }
        for (size_t ci = 0; ci < S.cons.size(); ++ci) { Constraint& c = S.cons[ci]; if (c.isDisabled(s)) c.disable(f); else c.enable(f);
            S.sys.realize(s, Stage::Instance); S.sys.realize(f, Stage::Instance);
            if (S.consKind[ci] == "cspeed") { auto& x = Constraint::ConstantSpeed::downcast(c); x.setSpeed(f, x.getSpeed(s)); }
            else if (S.consKind[ci] == "ccoord") { auto& x = Constraint::ConstantCoordinate::downcast(c); x.setPosition(f, x.getPosition(s)); }
            else if (S.consKind[ci] == "cacc") { auto& x = Constraint::ConstantAcceleration::downcast(c); x.setAcceleration(f, x.getAcceleration(s)); } }
        for (auto& mo : S.motions) { if (mo.isDisabled(s)) mo.disable(f); else mo.enable(f); }
        S.mVar->setValue(f, S.mVar->getValue(s));
        for (auto& m : S.mob) if (!m.isGround()) { Motion::Level lv = m.getLockLevel(s); if (lv == Motion::NoLevel) m.unlock(f); else m.lockAt(f, m.getLockValueAsVector(s), lv); }
        // lockAt() itself writes q and u, so the continuous variables are given last
        f.setTime(s.getTime()); f.setQ(s.getQ()); f.setU(s.getU()); if (s.getNZ()) f.setZ(s.getZ());
        return f;
    }

    Result execute(const Plan& p) override {
        Result res; vf::Hash key, hash; Sys S;
        long probeParamAfterRealize = 0, probeEnableAfterRealize = 0, probeGravAfterLazy = 0, probeCopyBetween = 0, probeThrowAdvanced = 0, checks = 0, mods = 0;
        try {
            build(S, p);
            S.sys.realizeTopology();
            State s = S.sys.getDefaultState();
            S.sys.realizeModel(s);
            std::vector<long> throwAts; std::vector<int> throwStages; for (auto& f : p.faults) if (f.kind == "throw") { throwAts.push_back(std::max(1L, f.num("at", 1))); int st = (int)f.num("stage", 7); throwStages.push_back(st == 3 || st == 5 || st == 6 ? st : 7); }
            size_t nextThrow = 0; if (!throwAts.empty()) { S.tc.throwAt = throwAts[0]; S.tc.stage = throwStages[0]; }
            bool needTouch = false; int failedStage = 7;      // a realization failed (in that stage's code) and the client has not changed anything yet
            // realizations the harness itself needs inside an operation never fail (only 'realize' operations are fault targets)
            auto qr = [&](Stage g) { long sv = S.tc.throwAt; S.tc.throwAt = -1; try { S.sys.realize(s, g); } catch (...) { S.tc.throwAt = sv; throw; } S.tc.throwAt = sv; };
            auto S_ = [](double v) { char b[40]; std::snprintf(b, sizeof b, "%.17g", v); return std::string(b); };
            bool gravLazyFilled = false; std::string lastMod = "(none)"; int opn = 0;
            auto check = [&](const std::string& where) {
                ++checks;
                // (1) a fresh State given the same values
                std::vector<double> a, b; std::vector<std::string> names;
                long savedThrow = S.tc.throwAt; S.tc.throwAt = -1;      // the oracle itself runs fault-free
                try {
                    snapshot(S, s, a, &names);
                    State f = freshLike(S, s); snapshot(S, f, b);
                    // (2) the library's own restart: a copy keeps the variables and drops the cache
                    State c(s); std::vector<double> cc; snapshot(S, c, cc);
                    if (a.size() != b.size() || a.size() != cc.size()) { res.fail("result-shape", "shape", "history, fresh and copied States give different numbers of results " + where); S.tc.throwAt = savedThrow; return; }
                    if (getenv("VERIF_DEBUG")) for (size_t i = 0; i < a.size(); ++i) if (names[i].find("multiplier") == 0 || names[i].find("udot") == 0 || names[i].find("uerr") == 0|| names[i].find("qerr") == 0) std::fprintf(stderr, "%s %s hist=%.17g fresh=%.17g copy=%.17g\n", where.c_str(), names[i].c_str(), a[i], b[i], cc[i]);
                    for (size_t i = 0; i < a.size(); ++i) {
                        double sc = std::max(std::abs(a[i]), std::abs(b[i]));
                        if (!(std::abs(a[i] - b[i]) <= 1e-9 * sc + 1e-10) && !(std::isnan(a[i]) && std::isnan(b[i]))) {
                            std::string q = names[i].substr(0, names[i].find('['));
                            res.fail("stale-result", q.rfind("measure:", 0) == 0 ? "quantity=" + q : "quantity=" + q + " lastchange=" + lastMod.substr(0, lastMod.find(' ')), names[i] + " = " + S_(a[i]) + " in the State reached by the history but " + S_(b[i]) + " in a fresh State with the same values; last modification: " + lastMod + " " + where);
                            break; }
                        double sc2 = std::max(std::abs(a[i]), std::abs(cc[i]));
                        if (!(std::abs(a[i] - cc[i]) <= 1e-9 * sc2 + 1e-10) && !(std::isnan(a[i]) && std::isnan(cc[i]))) {
                            std::string q = names[i].substr(0, names[i].find('['));
                            res.fail("stale-result-vs-copy", q.rfind("measure:", 0) == 0 ? "quantity=" + q : "quantity=" + q + " lastchange=" + lastMod.substr(0, lastMod.find(' ')), names[i] + " = " + S_(a[i]) + " in the State reached by the history but " + S_(cc[i]) + " in a copy of it; last modification: " + lastMod + " " + where);
                            break; }
                    }
                } catch (const std::exception& e) { res.fail("oracle-exception", "exception", std::string(e.what()) + " " + where); }
                S.tc.throwAt = savedThrow;
            };
            for (auto& op : p.ops) {
                if (res.violation) break;
                if (op.kind == "elem" || op.kind == "cons" || op.kind == "motion") continue;
                ++opn; std::string where = "[op " + std::to_string(opn) + ": " + op.line() + "]";
                const Stage before = s.getSystemStage();
                key.mix(std::hash<std::string>()(op.kind) % 997); key.mix((int)before);
                const int nq = s.getNQ(), nu = s.getNU(); const int nb = (int)S.mob.size() - 1;
                auto modified = [&](const std::string& what) { lastMod = what; ++mods; needTouch = false; };
                // after a failed realization the client changes some variable before it realizes or queries again; if the plan's next
                // operation is not itself a modification, time is nudged (which invalidates every stage the failure may have left uneven)
                // (a setter called with the value the variable already has may change nothing; after a failure in the force-accumulation
                // stage only operations that certainly write a variable count as the client's change)
                const bool certainWrite = op.kind == "sett" || op.kind == "setq" || op.kind == "setq1" || op.kind == "setu";
                const bool anyModification = certainWrite || op.kind == "enable" || op.kind == "cenable" || op.kind == "menable" || op.kind == "lock" || op.kind == "grav";
                if (needTouch && !(failedStage == 7 ? certainWrite : anyModification)) { s.setTime(s.getTime() + 0.03125); modified("time (after a failed realization)"); }
                if (op.kind == "sett") { s.setTime(s.getTime() + 0.37); modified("time"); }
                else if (op.kind == "setq") { Rng r((uint64_t)op.num("seed", 1)); Vector q(nq); for (int i = 0; i < nq; ++i) q[i] = r.uni(-1.2, 1.2); s.updQ() = q; modified("q"); }
                else if (op.kind == "setq1") { MobilizedBody& m = S.mob[1 + op.num("i", 0) % nb]; m.setOneQ(s, 0, m.getOneQ(s, 0) + 0.31); modified("q(one coordinate via MobilizedBody::setOneQ)"); }
                else if (op.kind == "setu") { Rng r((uint64_t)op.num("seed", 1)); Vector u(nu); for (int i = 0; i < nu; ++i) u[i] = r.uni(-2, 2); s.updU() = u; modified("u"); }
                else if (op.kind == "param") {
                    if (!S.elems.empty()) { Elem& e = S.elems[op.num("e", 0) % S.elems.size()]; double f = op.real("f", 2); int which = (int)op.num("which", 0); bool did = true;
                        auto scaled = [f](double cur) { return f == 0 ? 0.0 : cur == 0 ? f : cur * f; };   // factor 0 sets the parameter to exactly zero; from zero a factor is taken as the new value
                        if (e.kind == "mls") { auto& x = Force::MobilityLinearSpring::downcast(e.f); if (which % 2) x.setQZero(s, x.getQZero(s) + 0.4 * f + 0.1); else x.setStiffness(s, scaled(x.getStiffness(s))); modified(which % 2 ? "parameter MobilityLinearSpring.qzero" : "parameter MobilityLinearSpring.stiffness"); }
                        else if (e.kind == "mld") { auto& x = Force::MobilityLinearDamper::downcast(e.f); x.setDamping(s, scaled(x.getDamping(s))); modified("parameter MobilityLinearDamper.damping"); }
                        else if (e.kind == "mcf") { auto& x = Force::MobilityConstantForce::downcast(e.f); x.setForce(s, scaled(x.getForce(s))); modified("parameter MobilityConstantForce.force"); }
                        else if (e.kind == "stop") { auto& x = Force::MobilityLinearStop::downcast(e.f); if (which == 1) x.setBounds(s, x.getLowerBound(s) - 0.1 * f - 0.03, x.getUpperBound(s) - 0.05 * f - 0.02); else if (which == 2) x.setMaterialProperties(s, x.getStiffness(s), scaled(x.getDissipation(s))); else x.setMaterialProperties(s, f == 0 ? x.getStiffness(s) * 2 : x.getStiffness(s) * f, x.getDissipation(s)); modified(which == 1 ? "parameter MobilityLinearStop.bounds" : which == 2 ? "parameter MobilityLinearStop.dissipation" : "parameter MobilityLinearStop.stiffness"); }
                        else if (e.kind == "df") { auto& x = Force::DiscreteForces::downcast(e.f); MobilizedBody& mb = S.mob[1 + (opn * 7 + which) % nb]; qr(Stage::Instance);
                            if (which == 0) x.setOneMobilityForce(s, mb, MobilizerUIndex(0), f == 0 ? 0.0 : 3 * f + 0.01 * opn); else if (which == 1) x.setOneBodyForce(s, mb, SpatialVec(Vec3(f, 0.5, -f), Vec3(2 * f, -1, 0.25 * opn))); else { if (f == 0) x.clearAllForces(s); else { qr(Stage::Position); /* needs the body's pose */ x.addForceToBodyPoint(s, mb, Vec3(0.1, 0.2, 0), Vec3(f, -f, 0.5)); } }
                            modified(which == 0 ? "parameter DiscreteForces.mobilityForce" : which == 1 ? "parameter DiscreteForces.bodyForce" : "parameter DiscreteForces.clear/addForceToBodyPoint"); }
                        else if (e.kind == "thermo") { auto& x = Force::Thermostat::downcast(e.f); qr(Stage::Instance); if (which % 2) x.setRelaxationTime(s, std::max(0.05, scaled(x.getRelaxationTime(s)))); else x.setBathTemperature(s, std::max(1.0, scaled(x.getBathTemperature(s)))); modified(which % 2 ? "parameter Thermostat.relaxationTime" : "parameter Thermostat.bathTemperature"); }
                        else if (e.h) { e.h->setParam(s, scaled(e.h->getParam(s))); modified(e.h->posOnly ? "parameter custom-position-only" : "parameter custom-velocity-dependent"); }
                        else did = false;
                        if (did && before >= Stage::Dynamics) ++probeParamAfterRealize; }
                }
                else if (op.kind == "enable") { if (!S.elems.empty()) { Elem& e = S.elems[op.num("e", 0) % S.elems.size()]; if (op.num("on", 1)) e.f.enable(s); else e.f.disable(s); modified("enable-flag force " + e.kind); if (before >= Stage::Dynamics) ++probeEnableAfterRealize; } }
                else if (op.kind == "cenable") { if (!S.cons.empty()) { Constraint& c = S.cons[op.num("c", 0) % S.cons.size()]; if (op.num("on", 1)) c.enable(s); else c.disable(s); modified("enable-flag constraint"); } }
                else if (op.kind == "menable") { if (!S.motions.empty()) { Motion& mo = S.motions[op.num("c", 0) % S.motions.size()]; if (op.num("on", 1)) mo.enable(s); else mo.disable(s); modified("enable-flag motion"); } }
                else if (op.kind == "cparam") { if (!S.cons.empty()) { size_t ci = op.num("c", 0) % S.cons.size(); double v = op.real("v", 0.5); Constraint& c = S.cons[ci]; qr(Stage::Instance);
                        if (S.consKind[ci] == "cspeed") { Constraint::ConstantSpeed::downcast(c).setSpeed(s, v); modified("parameter ConstantSpeed.speed"); }
                        else if (S.consKind[ci] == "ccoord") { Constraint::ConstantCoordinate::downcast(c).setPosition(s, v); modified("parameter ConstantCoordinate.position"); }
                        else if (S.consKind[ci] == "cacc") { Constraint::ConstantAcceleration::downcast(c).setAcceleration(s, v); modified("parameter ConstantAcceleration.acceleration"); } } }
                else if (op.kind == "meas") { int what = (int)op.num("what", 0) % 3; double v = op.real("v", 1);
                    if (what == 0) { S.mInt->setValue(s, v); modified("z (Measure::Integrate::setValue)"); }
                    else if (what == 1) { S.mVar->setValue(s, v); modified("discrete variable (Measure::Variable::setValue)"); }
                    else { qr(Stage::Time); for (auto& m : S.mAll) if (m.getDependsOnStage() <= Stage::Time) (void)m.getValue(s); } }      // an intermediate query that fills the measures' caches
                else if (op.kind == "lock") { MobilizedBody& m = S.mob[1 + op.num("b", 0) % nb]; int lv = (int)op.num("level", 0) % 4;
                    if (lv == 0) m.unlock(s); else if (lv == 1) m.lock(s, Motion::Position); else if (lv == 2) m.lock(s, Motion::Velocity); else m.lockAt(s, Vector(m.getNumU(s), 0.25), Motion::Acceleration);
                    modified("lock"); }
                else if (op.kind == "grav") { int what = (int)op.num("what", 0) % 6; double v = op.real("v", 9.8);
                    if (what >= 4) S.gravity.setGravityVector(s, v == 0 ? Vec3(0) : Vec3(0.3 * v, -v, what == 5 ? 0.2 * v : 0.0));
                    else if (what == 0) S.gravity.setMagnitude(s, v); else if (what == 1) S.gravity.setDownDirection(s, UnitVec3(Vec3(std::sin(v), -std::cos(v), 0.3))); else if (what == 2) { MobilizedBodyIndex bx = S.mob[1 + op.num("b", 0) % nb].getMobilizedBodyIndex(); S.gravity.setBodyIsExcluded(s, bx, !S.gravity.getBodyIsExcluded(s, bx)); } else S.gravity.setZeroHeight(s, v - 10);
                    modified(std::string("gravity ") + (what >= 4 ? "vector" : what == 0 ? "magnitude" : what == 1 ? "direction" : what == 2 ? "exclusion" : "zeroheight")); if (gravLazyFilled) ++probeGravAfterLazy; gravLazyFilled = false; }
                else if (op.kind == "euler") { bool on = op.num("on", 0) != 0; if (S.matter.getUseEulerAngles(s) != on) { Vector u = s.getU(); double t = s.getTime(); S.matter.setUseEulerAngles(s, on); S.sys.realizeModel(s); s.setTime(t); s.updU() = u; Rng r(opn * 977 + 5); Vector q(s.getNQ()); for (int i = 0; i < q.size(); ++i) q[i] = r.uni(-1, 1); s.updQ() = q; modified("euler-quaternion-option"); } }
                else if (op.kind == "realize") {
                    int st = (int)std::max(4L, std::min(8L, op.num("stage", 7)));
                    try { S.sys.realize(s, Stage(st)); }
                    catch (const std::exception& e) {
                        if (S.tc.fired == 0 || S.tc.throwAt < 0) throw;
                        // failed realization: as every client of the library does, change a state variable before going on
                        if (s.getSystemStage() >= Stage::Position) ++probeThrowAdvanced;
                        const int failedAt = S.tc.stage;
                        res.count("fault_realize_throw"); res.count(std::string("fault_realize_throw_at_stage_") + std::to_string(S.tc.stage));
                        S.tc.calls = 0; ++nextThrow; S.tc.throwAt = nextThrow < throwAts.size() ? throwAts[nextThrow] : -1; if (nextThrow < throwStages.size()) S.tc.stage = throwStages[nextThrow]; S.tc.fired = 0;
                        if ((opn * 13 + (int)nextThrow) % 2 == 0) { needTouch = true; failedStage = failedAt; continue; }      // the plan's next operation is the client's change (or time is nudged, see above)
                        // ... which variable is up to the client: a speed, the time, a coordinate or a force parameter
                        switch ((opn * 31 + (int)nextThrow * 7) % 4) {
                        case 0: { s.setTime(s.getTime() + 0.0625); modified("time (after a failed realization)"); break; }
                        case 1: { Vector q = s.getQ(); if (q.size()) { q[q.size() - 1] += 0.0625; s.updQ() = q; } modified("q (after a failed realization)"); break; }
                        case 2: { bool did = false; for (auto& e : S.elems) if (e.h) { e.h->setParam(s, e.h->getParam(s) * 1.5 + 0.25); did = true; break; }
                                  if (did) { modified("parameter (after a failed realization)"); break; } }
                        // fall through
                        default: { Vector u = s.getU(); if (u.size()) { u[0] += 0.125; s.updU() = u; } modified("u (after a failed realization)"); }
                        }
                    }
                }
                else if (op.kind == "query") {
                    int what = (int)op.num("what", 0) % 5;
                    long savedThrow = S.tc.throwAt; S.tc.throwAt = -1;
                    if (what == 0) { S.sys.realize(s, Stage::Position); S.matter.realizeCompositeBodyInertias(s); (void)S.matter.getCompositeBodyInertia(s, S.mob[1 + op.num("b", 0) % nb].getMobilizedBodyIndex()); }
                    else if (what == 1) { S.sys.realize(s, Stage::Position); (void)S.gravity.getBodyForces(s); gravLazyFilled = true; }
                    else if (what == 2) { S.sys.realize(s, Stage::Position); (void)S.sys.calcPotentialEnergy(s); }
                    else if (what == 3) { S.sys.realize(s, Stage::Velocity); if (!S.elems.empty()) { Vector_<SpatialVec> bf; Vector_<Vec3> pf; Vector mf; S.elems[op.num("e", 0) % S.elems.size()].f.calcForceContribution(s, bf, pf, mf); } }
                    else { S.sys.realize(s, Stage::Velocity); (void)S.sys.calcKineticEnergy(s); }
                    S.tc.throwAt = savedThrow;
                }
                else if (op.kind == "copy") {
                    int how = (int)op.num("how", 0) % 3; if (before >= Stage::Position) ++probeCopyBetween;
                    if (how == 0) { State c(s); s = c; }                // through a copy and back (assignment into the used State)
                    else if (how == 1) { State c(s); State d(std::move(c)); s = std::move(d); }
                    else { State c; c = s; s = State(c); }
                    res.count("probe_restart_by_copy");
                }
                else if (op.kind == "check") check(where);
            }
            if (needTouch) { s.setTime(s.getTime() + 0.03125); lastMod = "time (after a failed realization)"; needTouch = false; }     // same rule at the end of the history
            if (!res.violation) check("[end of history]");
        } catch (const std::exception& e) { res.fail("unexpected-exception", "exception", e.what()); }
        res.count("probe_param_change_after_dynamics_realized", probeParamAfterRealize); res.count("probe_enable_change_after_dynamics_realized", probeEnableAfterRealize);
        res.count("probe_gravity_setter_after_lazy_cache_filled", probeGravAfterLazy); res.count("probe_copy_with_position_realized", probeCopyBetween); res.count("probe_throw_with_stage_advanced", probeThrowAdvanced);
        res.count("checkpoints", checks); res.count("fault_realize_throw", 0);
        res.nontrivial = (probeParamAfterRealize + probeEnableAfterRealize + probeGravAfterLazy) >= 1 && mods >= 3; res.simtime = (double)p.ops.size();
        res.key = key.h; res.hash = key.h;
        return res;
    }
};

int main(int argc, char** argv) { C16 e; return vf::engineMain(argc, argv, e); }
