// C18 — State stage and cache semantics follow the documented model.
// A bare SimTK::State is driven through its public API the way a System and its
// Subsystems drive it, next to a small executable reference model of the
// documentation in State.h; every observable is compared after every operation.
// "Restart" = copy construction / assignment (variables survive, cache validity does not).
#include "SimTKcommon.h"
#include "../common/common.h"
#include <memory>
#include <set>
using namespace SimTK;
using vf::Plan; using vf::Op; using vf::Result; using vf::Rng;

enum { PH_T = 0, PH_M = 1, PH_I = 2 };   // allocation phases: state at Empty / Topology / Model
static const int INF = 99;

struct DvSpec { int sub, phase, invalidates; bool autoUpd; int updDepends; };
struct CeSpec { int sub, phase, earliest, latest; bool q, u, z; std::vector<int> dvs, ces; };   // prerequisite indices into the global spec lists
struct YSpec { int sub, nq, nu, nz; };

// ---------------- reference model of one State ----------------
struct MDv { bool exists = false; long value = 0; double lastUpd = 0; long lastChange = 0; int ceUpd = -1; };
struct MCe { bool exists = false; long value = 0; long marked = -1; long invalidated = 0; bool unknown = false; };
struct Model {
    int sysStage = 0; std::vector<int> subStage;
    std::vector<std::vector<long>> stageInv;       // [sub][stage] sequence number of last invalidation of that stage
    double t = 0; std::vector<double> q, u, z; bool yExists = false;
    long qChange = 0, uChange = 0, zChange = 0;
    std::vector<MDv> dv; std::vector<MCe> ce;
    long seq = 1;
};

struct Upd { long value = 0; long marked = -1; };   // update value of an auto-update variable
struct Live {            // a State and what the harness knows about it
    std::unique_ptr<State> s; Model m; std::map<int, Upd> upd;
    std::vector<DiscreteVariableIndex> dvIx; std::vector<CacheEntryIndex> ceIx; std::vector<CacheEntryIndex> updIx;
    ValueVersion lastQv = -1, lastUv = -1, lastZv = -1; long seenQ = 0, seenU = 0, seenZ = 0;
};

struct C18 : vf::Engine {
    const char* property() const override { return "C18"; }
    long uniq = 1000;

    Plan generate(uint64_t seed, const std::string& tier, const std::string& mode) override {
        Rng r(seed); Plan p; p.property = "C18"; p.seed = seed;
        int nsub = r.range(1, 4); p.setcfg("nsub", nsub);
        // continuous variables per subsystem (model phase)
        for (int s = 0; s < nsub; ++s) p.ops.push_back(vf::mkop("y").set("sub", s).set("nq", r.range(0, 2)).set("nu", r.range(0, 2)).set("nz", r.range(0, 2)));
        int ndv = r.range(1, 5), nce = r.range(2, 7);
        std::vector<int> dvPhase, cePhase, ceEarliest;
        for (int i = 0; i < ndv; ++i) {
            int ph = r.chance(0.4) ? PH_T : PH_M; bool au = r.chance(0.35);
            int inv = au ? r.range(5, 8) : (ph == PH_T && r.chance(0.15) ? 2 : r.range(3, 9));
            p.ops.push_back(vf::mkop("dv").set("sub", (int)r.below(nsub)).set("phase", ph).set("inv", inv).set("auto", au ? 1 : 0).set("upd", r.range(4, 8)));
            dvPhase.push_back(ph);
        }
        for (int i = 0; i < nce; ++i) {
            int ph = (int)r.below(3); int lo = ph == PH_T ? 1 : (ph == PH_M ? 2 : 3);
            int e = r.range(std::max(lo, 3), 8); if (r.chance(0.15)) e = r.range(lo, 8);
            int l = r.chance(0.45) ? INF : (r.chance(0.5) ? e : r.range(e, 9));
            Op o = vf::mkop("ce").set("sub", (int)r.below(nsub)).set("phase", ph).set("e", e).set("l", l);
            if (r.chance(0.4) && ph != PH_I) {       // prerequisites (non-const allocation method: topology/model phases)
                o.set("q", r.chance(0.4) ? 1 : 0).set("u", r.chance(0.3) ? 1 : 0).set("z", r.chance(0.3) ? 1 : 0);
                std::string dl, cl;
                for (int k = 0; k < (int)dvPhase.size(); ++k) if (dvPhase[k] <= ph && r.chance(0.3)) dl += std::to_string(k) + ",";
                for (int k = 0; k < (int)cePhase.size(); ++k) if (cePhase[k] <= ph && ceEarliest[k] <= e && r.chance(0.3)) cl += std::to_string(k) + ",";
                if (!dl.empty()) o.set("dvs", dl); if (!cl.empty()) o.set("ces", cl);
            }
            p.ops.push_back(o); cePhase.push_back(ph); ceEarliest.push_back(e);
        }
        int nops = r.range(10, tier == "thorough" ? 120 : 70);
        for (int k = 0; k < nops; ++k) {
            int w = (int)r.below(100); Op o;
            int which = (int)r.below(2);
            if (w < 20) o = vf::mkop("realize").set("to", r.range(3, 9));
            else if (w < 30) o = vf::mkop("advsub").set("sub", (int)r.below(nsub));
            else if (w < 38) o = vf::mkop("setq").set("var", (int)r.below(8)).set("sub", (int)r.below(nsub + 1));
            else if (w < 43) o = vf::mkop("sett");
            else if (w < 52) o = vf::mkop("setdv").set("i", (int)r.below(ndv));
            else if (w < 66) o = vf::mkop("mark").set("i", (int)r.below(nce));
            else if (w < 70) o = vf::mkop("unmark").set("i", (int)r.below(nce));
            else if (w < 75) o = vf::mkop("markupd").set("i", (int)r.below(ndv));
            else if (w < 80) o = vf::mkop("autoupdate");
            else if (w < 85) o = vf::mkop("invalidate").set("stage", r.range(2, 9)).set("cacheonly", (int)r.below(2));
            else if (w < 93) o = vf::mkop("copy").set("how", (int)r.below(4));
            else o = vf::mkop("realize").set("to", r.range(5, 9));
            o.set("on", which);
            p.ops.push_back(o);
        }
        return p;
    }

    // ------------------------------------------------------------------ execution
    std::vector<YSpec> ys; std::vector<DvSpec> dvs; std::vector<CeSpec> ces; int nsub = 1;
    Result* R = nullptr; vf::Hash key, hash; long probeVIV = 0, probeCopy = 0, probeRemodel = 0, probePrereq = 0, probeLatestOnly = 0, probeSwap = 0, probeSwapNo = 0;
    std::string opctx;

    void fail(const std::string& cls, const std::string& sig, const std::string& d) { R->fail(cls, sig, d + " [after " + opctx + "]"); }

    static std::vector<int> parseList(const std::string& s) { std::vector<int> v; std::istringstream is(s); std::string t; while (std::getline(is, t, ',')) if (!t.empty()) v.push_back(std::atoi(t.c_str())); return v; }

    void allocPhase(Live& L, int phase) {
        State& s = *L.s; Model& m = L.m;
        if (phase == PH_M) {
            int nq = 0, nu = 0, nz = 0;
            for (auto& y : ys) { nq += y.nq; nu += y.nu; nz += y.nz; }
            m.q.assign(nq, 0); m.u.assign(nu, 0); m.z.assign(nz, 0); int iq = 0, iu = 0, iz = 0;
            for (auto& y : ys) {
                Vector vq(y.nq), vu(y.nu), vz(y.nz);
                for (int k = 0; k < y.nq; ++k) { vq[k] = (double)++uniq; m.q[iq++] = vq[k]; }
                for (int k = 0; k < y.nu; ++k) { vu[k] = (double)++uniq; m.u[iu++] = vu[k]; }
                for (int k = 0; k < y.nz; ++k) { vz[k] = (double)++uniq; m.z[iz++] = vz[k]; }
                if (y.nq) s.allocateQ(SubsystemIndex(y.sub), vq); if (y.nu) s.allocateU(SubsystemIndex(y.sub), vu); if (y.nz) s.allocateZ(SubsystemIndex(y.sub), vz);
            }
            m.yExists = true; m.qChange = m.uChange = m.zChange = m.seq++;
        }
        for (size_t i = 0; i < dvs.size(); ++i) if (dvs[i].phase == phase) {
            const DvSpec& d = dvs[i]; long v = ++uniq;
            if (d.autoUpd) { L.dvIx[i] = s.allocateAutoUpdateDiscreteVariable(SubsystemIndex(d.sub), Stage(d.invalidates), new Value<long>(v), Stage(d.updDepends)); L.updIx[i] = s.getDiscreteVarUpdateIndex(SubsystemIndex(d.sub), L.dvIx[i]); }
            else L.dvIx[i] = s.allocateDiscreteVariable(SubsystemIndex(d.sub), Stage(d.invalidates), new Value<long>(v));
            L.upd.erase((int)i);
            m.dv[i] = MDv(); m.dv[i].exists = true; m.dv[i].value = v; m.dv[i].lastChange = m.seq++; m.dv[i].lastUpd = NaN;
        }
        for (size_t i = 0; i < ces.size(); ++i) if (ces[i].phase == phase) {
            const CeSpec& c = ces[i]; long v = ++uniq;
            bool pre = c.q || c.u || c.z || !c.dvs.empty() || !c.ces.empty();
            Stage lat = c.latest == INF ? Stage(Stage::Infinity) : Stage(c.latest);
            if (pre) {
                Array_<DiscreteVarKey> dk; Array_<CacheEntryKey> ck;
                for (int k : c.dvs) dk.push_back(DiscreteVarKey(SubsystemIndex(dvs[k].sub), L.dvIx[k]));
                for (int k : c.ces) ck.push_back(CacheEntryKey(SubsystemIndex(ces[k].sub), L.ceIx[k]));
                L.ceIx[i] = s.allocateCacheEntryWithPrerequisites(SubsystemIndex(c.sub), Stage(c.earliest), lat, c.q, c.u, c.z, dk, ck, new Value<long>(v));
            } else L.ceIx[i] = s.allocateCacheEntry(SubsystemIndex(c.sub), Stage(c.earliest), lat, new Value<long>(v));
            m.ce[i] = MCe(); m.ce[i].exists = true; m.ce[i].value = v; m.ce[i].invalidated = m.seq++;
        }
    }

    // model: subsystem sub loses stages > g (and the system too)
    void modelBackUp(Model& m, int g) {
        for (int sb = 0; sb < nsub; ++sb) {
            if (m.subStage[sb] > g) { for (int st = g + 1; st <= m.subStage[sb] && st <= 9; ++st) m.stageInv[sb][st] = m.seq; m.subStage[sb] = g; }
        }
        if (m.sysStage > g) m.sysStage = g;
        ++m.seq;
        // allocations made after stage g are forgotten
        for (size_t i = 0; i < dvs.size(); ++i) if (m.dv[i].exists && dvs[i].phase >= g) m.dv[i].exists = false;
        for (size_t i = 0; i < ces.size(); ++i) if (m.ce[i].exists && ces[i].phase >= g) m.ce[i].exists = false;
        if (g < 2 && m.yExists) { m.yExists = false; m.q.clear(); m.u.clear(); m.z.clear(); m.qChange = m.uChange = m.zChange = m.seq++; ++probeRemodel; }
    }
    long lastInvalid(const Model& m, int i) const {
        const CeSpec& c = ces[i]; long li = std::max(m.ce[i].invalidated, m.stageInv[c.sub][c.earliest]);
        if (c.q) li = std::max(li, m.qChange); if (c.u) li = std::max(li, m.uChange); if (c.z) li = std::max(li, m.zChange);
        for (int k : c.dvs) li = std::max(li, m.dv[k].exists ? m.dv[k].lastChange : m.seq);
        for (int k : c.ces) li = std::max(li, upstreamChange(m, k));
        return li;
    }
    // an upstream entry "changes" whenever it is invalidated (by itself or through its own prerequisites)
    long upstreamChange(const Model& m, int k) const { if (!m.ce[k].exists) return m.seq; return lastInvalid(m, k); }
    bool modelValid(const Model& m, int i) const {
        const CeSpec& c = ces[i]; int st = m.subStage[c.sub];
        if (c.latest != INF && st >= c.latest) return true;
        if (st < c.earliest) return false;
        return m.ce[i].marked > lastInvalid(m, i);
    }

    void realizeTo(Live& L, int g) {      // advance every subsystem and the system stage by stage, allocating at phase boundaries
        Model& m = L.m; State& s = *L.s;
        for (int st = m.sysStage + 1; st <= g; ++st) {
            if (st - 1 <= 2) { bool need = false; for (int sb = 0; sb < nsub; ++sb) if (m.subStage[sb] < st) need = true; if (need) allocMissing(L, st - 1); }
            for (int sb = 0; sb < nsub; ++sb) if (m.subStage[sb] < st) { s.advanceSubsystemToStage(SubsystemIndex(sb), Stage(st)); m.subStage[sb] = st; }
            s.advanceSystemToStage(Stage(st)); m.sysStage = st;
        }
    }
    void allocMissing(Live& L, int phase) {
        // (re)allocate whatever belongs to this phase and does not exist; all subsystems are at stage == phase here
        bool any = false;
        for (size_t i = 0; i < dvs.size(); ++i) if (dvs[i].phase == phase && !L.m.dv[i].exists) any = true;
        for (size_t i = 0; i < ces.size(); ++i) if (ces[i].phase == phase && !L.m.ce[i].exists) any = true;
        if (phase == PH_M && !L.m.yExists) any = true;
        if (any) allocPhase(L, phase);
    }

    void verify(Live& L, const char* who) {
        if (R->violation) return;
        State& s = *L.s; Model& m = L.m; std::string W = std::string(who) + ": ";
        if ((int)s.getSystemStage() != m.sysStage) { fail("system-stage", "stage", W + "system stage is " + s.getSystemStage().getName() + " but the model says " + Stage(m.sysStage).getName()); return; }
        for (int sb = 0; sb < nsub; ++sb) if ((int)s.getSubsystemStage(SubsystemIndex(sb)) != m.subStage[sb]) { fail("subsystem-stage", "stage", W + "subsystem " + std::to_string(sb) + " stage is " + s.getSubsystemStage(SubsystemIndex(sb)).getName() + " but the model says " + Stage(m.subStage[sb]).getName()); return; }
        if (m.sysStage >= 1 && s.getTime() != m.t && !(std::isnan(m.t) && std::isnan(s.getTime()))) { fail("time-value", "variables", W + "time differs"); return; }
        if (m.sysStage >= 2) {
            auto cmpv = [&](const Vector& v, const std::vector<double>& w, const char* nm) { if (v.size() != (int)w.size()) { fail("variable-value", "variables", W + nm + " has wrong size"); return; } for (int k = 0; k < v.size(); ++k) if (v[k] != w[k]) { fail("variable-value", "variables", W + nm + "[" + std::to_string(k) + "] = " + std::to_string(v[k]) + " expected " + std::to_string(w[k])); return; } };
            cmpv(s.getQ(), m.q, "q"); cmpv(s.getU(), m.u, "u"); cmpv(s.getZ(), m.z, "z");
            if (R->violation) return;
            // value versions must have changed whenever the values may have changed
            ValueVersion qv = s.getQValueVersion(), uv = s.getUValueVersion(), zv = s.getZValueVersion();
            if (L.seenQ != m.qChange) { if (qv == L.lastQv && L.lastQv >= 0) { fail("value-version", "q", W + "q may have changed but getQValueVersion() is still " + std::to_string((long)qv)); return; } L.seenQ = m.qChange; }
            if (L.seenU != m.uChange) { if (uv == L.lastUv && L.lastUv >= 0) { fail("value-version", "u", W + "u may have changed but getUValueVersion() is still " + std::to_string((long)uv)); return; } L.seenU = m.uChange; }
            if (L.seenZ != m.zChange) { if (zv == L.lastZv && L.lastZv >= 0) { fail("value-version", "z", W + "z may have changed but getZValueVersion() is still " + std::to_string((long)zv)); return; } L.seenZ = m.zChange; }
            L.lastQv = qv; L.lastUv = uv; L.lastZv = zv;
        }
        for (size_t i = 0; i < dvs.size(); ++i) if (m.dv[i].exists) {
            long v = Value<long>::downcast(s.getDiscreteVariable(SubsystemIndex(dvs[i].sub), L.dvIx[i]));
            if (v != m.dv[i].value) { fail("discrete-value", "variables", W + "discrete variable " + std::to_string(i) + " = " + std::to_string(v) + " expected " + std::to_string(m.dv[i].value)); return; }
        }
        for (size_t i = 0; i < ces.size(); ++i) if (m.ce[i].exists) {
            if (m.ce[i].unknown) continue;
            bool want = modelValid(m, (int)i), got = s.isCacheValueRealized(SubsystemIndex(ces[i].sub), L.ceIx[i]);
            std::string ds = "cache entry " + std::to_string(i) + " (sub " + std::to_string(ces[i].sub) + ", earliest " + Stage(ces[i].earliest).getName() + ", latest " + (ces[i].latest == INF ? "Infinity" : Stage(ces[i].latest).getName()) + (ces[i].q || ces[i].u || ces[i].z || ces[i].dvs.size() || ces[i].ces.size() ? ", with prerequisites" : "") + ")";
            if (want != got) { fail(got ? "cache-valid-but-stale" : "cache-invalid-but-current", std::string("cache ") + (ces[i].q || ces[i].u || ces[i].z || ces[i].dvs.size() || ces[i].ces.size() ? "prereq" : "stage"), W + ds + " reads " + (got ? "valid" : "invalid") + " but by the documented model it is " + (want ? "valid" : "invalid") + " (subsystem stage " + Stage(m.subStage[ces[i].sub]).getName() + ")"); return; }
            bool threw = false; long v = 0;
            try { v = Value<long>::downcast(s.getCacheEntry(SubsystemIndex(ces[i].sub), L.ceIx[i])); } catch (const std::exception&) { threw = true; }
            if (threw == want) { fail("cache-access", "cache", W + ds + (threw ? " getCacheEntry threw although valid" : " getCacheEntry did not throw although invalid")); return; }
            if (want && v != m.ce[i].value) { fail("cache-value", "cache", W + ds + " holds " + std::to_string(v) + " expected " + std::to_string(m.ce[i].value)); return; }
        }
        for (size_t i = 0; i < dvs.size(); ++i) if (m.dv[i].exists && dvs[i].autoUpd) {
            int c = m.dv[i].ceUpd; (void)c;
        }
    }

    // update-value cache entries of auto-update variables are modelled as extra cache entries appended to 'ces'
    Result execute(const Plan& p) override {
        Result res; R = &res; key = vf::Hash(); hash = vf::Hash(); uniq = 1000;
        probeVIV = probeCopy = probeRemodel = probePrereq = probeLatestOnly = probeSwap = probeSwapNo = 0;
        nsub = (int)std::max(1L, std::min(4L, p.cfgn("nsub", 1)));
        ys.clear(); dvs.clear(); ces.clear();
        for (auto& op : p.ops) {
            if (op.kind == "y") ys.push_back({(int)(op.num("sub", 0) % nsub), (int)op.num("nq", 0) % 3, (int)op.num("nu", 0) % 3, (int)op.num("nz", 0) % 3});
            else if (op.kind == "dv") { DvSpec d; d.sub = (int)(op.num("sub", 0) % nsub); d.phase = op.num("phase", 0) ? PH_M : PH_T; d.autoUpd = op.num("auto", 0) != 0;
                d.invalidates = (int)std::max(2L, std::min(9L, op.num("inv", 5))); if (d.autoUpd && d.invalidates <= 4) d.invalidates = 5; if (d.phase == PH_M && d.invalidates < 3) d.invalidates = 3;
                d.updDepends = (int)std::max(4L, std::min(8L, op.num("upd", 5))); dvs.push_back(d); }
        }
        // plain cache entries first, then one update entry per auto-update variable
        std::vector<int> ceOfPlan;
        for (auto& op : p.ops) if (op.kind == "ce") {
            CeSpec c; c.sub = (int)(op.num("sub", 0) % nsub); c.phase = (int)(op.num("phase", 0) % 3); int lo = c.phase == PH_T ? 1 : (c.phase == PH_M ? 2 : 3);
            c.earliest = (int)std::max((long)lo, std::min(8L, op.num("e", 4))); long l = op.num("l", INF); c.latest = l >= INF ? INF : (int)std::max((long)c.earliest, std::min(9L, l));
            c.q = op.num("q", 0); c.u = op.num("u", 0); c.z = op.num("z", 0);
            if (c.phase != PH_I) { for (int k : parseList(op.str("dvs", ""))) if (k >= 0 && k < (int)dvs.size() && dvs[k].phase <= c.phase) c.dvs.push_back(k);
                for (int k : parseList(op.str("ces", ""))) if (k >= 0 && k < (int)ces.size() && ces[k].phase <= c.phase && ces[k].earliest <= c.earliest) c.ces.push_back(k); }
            else c.q = c.u = c.z = false;
            std::sort(c.dvs.begin(), c.dvs.end()); c.dvs.erase(std::unique(c.dvs.begin(), c.dvs.end()), c.dvs.end());
            std::sort(c.ces.begin(), c.ces.end()); c.ces.erase(std::unique(c.ces.begin(), c.ces.end()), c.ces.end());
            ces.push_back(c);
        }
        const int nPlainCe = (int)ces.size();
        { std::vector<YSpec> u; for (int sb = 0; sb < nsub; ++sb) for (auto& y : ys) if (y.sub == sb) { u.push_back(y); break; } ys = u; }
        if (ys.empty()) ys.push_back({0, 1, 1, 0});
        Live A, B; bool haveB = false;
        auto initLive = [&](Live& L) {
            L.s.reset(new State()); L.s->setNumSubsystems(nsub);
            L.m = Model(); L.m.subStage.assign(nsub, 0); L.m.stageInv.assign(nsub, std::vector<long>(12, 0)); L.m.dv.assign(dvs.size(), MDv()); L.m.ce.assign(ces.size(), MCe());
            L.dvIx.assign(dvs.size(), DiscreteVariableIndex()); L.ceIx.assign(ces.size(), CacheEntryIndex()); L.updIx.assign(dvs.size(), CacheEntryIndex());
        };
        initLive(A);
        try {
            opctx = "build"; realizeTo(A, 3); verify(A, "A");
            int opn = 0;
            for (auto& op : p.ops) {
                if (res.violation) break;
                if (op.kind == "y" || op.kind == "dv" || op.kind == "ce") continue;
                ++opn; opctx = "op " + std::to_string(opn) + ": " + op.line();
                Live& L = (haveB && op.num("on", 0) == 1) ? B : A; const char* who = (&L == &B) ? "B" : "A";
                Model& m = L.m; State& s = *L.s;
                key.mix(std::hash<std::string>()(op.kind) % 1000); key.mix(m.sysStage);
                if (op.kind == "realize") { int g = (int)std::max(1L, std::min(9L, op.num("to", 5))); if (g > m.sysStage) realizeTo(L, g); }
                else if (op.kind == "advsub") {      // one subsystem ahead of the others by one stage
                    int sb = (int)(op.num("sub", 0) % nsub); int st = m.subStage[sb] + 1;
                    if (st <= 9 && st >= 4 && m.subStage[sb] == m.sysStage) { s.advanceSubsystemToStage(SubsystemIndex(sb), Stage(st)); m.subStage[sb] = st; }
                }
                else if (op.kind == "sett") { if (m.sysStage >= 1) { double t = (double)++uniq; s.setTime(t); m.t = t; modelBackUp(m, 3); } }
                else if (op.kind == "setq") {
                    if (m.sysStage >= 2 && m.yExists) {
                        int var = (int)(op.num("var", 0) % 8); int sbSel = (int)(op.num("sub", 0) % (nsub + 1));
                        double v = (double)++uniq;
                        auto setOne = [&](Vector& vec, std::vector<double>& mv, int off, int n) { if (n > 0) { vec[0] = v; mv[off] = v; } };
                        // offsets of a subsystem's slice
                        auto off = [&](int sb, int what) { int o = 0; for (auto& y : ys) { if (y.sub < sb || false) {} } int acc = 0; for (auto& y : ys) { if (&y - &ys[0] >= 0) { if (y.sub == sb && false) {} } } (void)o; (void)acc; return 0; };
                        (void)off;
                        // global accessors (the per-subsystem ones are exercised through their slices below)
                        switch (var) {
                        case 0: if (m.q.size()) { s.updQ()[0] = v; m.q[0] = v; } else s.updQ(); m.qChange = m.seq; modelBackUp(m, 4); break;
                        case 1: if (m.u.size()) { s.updU()[0] = v; m.u[0] = v; } else s.updU(); m.uChange = m.seq; modelBackUp(m, 5); break;
                        case 2: if (m.z.size()) { s.updZ()[0] = v; m.z[0] = v; } else s.updZ(); m.zChange = m.seq; modelBackUp(m, 6); break;
                        case 3: { Vector& y = s.updY(); if (y.size()) { y[y.size() - 1] = v; if (m.z.size()) m.z.back() = v; else if (m.u.size()) m.u.back() = v; else m.q.back() = v; } m.qChange = m.uChange = m.zChange = m.seq; modelBackUp(m, 4); break; }
                        case 4: { Vector nq((int)m.q.size()); for (int k = 0; k < nq.size(); ++k) { nq[k] = (double)++uniq; m.q[k] = nq[k]; } s.setQ(nq); m.qChange = m.seq; modelBackUp(m, 4); break; }
                        case 5: { Vector nu((int)m.u.size()); for (int k = 0; k < nu.size(); ++k) { nu[k] = (double)++uniq; m.u[k] = nu[k]; } s.setU(nu); m.uChange = m.seq; modelBackUp(m, 5); break; }
                        default: {      // per-subsystem writable slice
                            int sb = sbSel % nsub; int oq = 0, ou = 0, oz = 0, nq = 0, nu = 0, nz = 0;
                            for (auto& y : ys) { if (y.sub == sb) { nq = y.nq; nu = y.nu; nz = y.nz; break; } oq += y.nq; ou += y.nu; oz += y.nz; }
                            // slices are laid out per subsystem in allocation order; our allocation order is the order of 'ys' grouped by subsystem index
                            if (var == 6) { Vector& sq = s.updQ(SubsystemIndex(sb)); if (sq.size()) { sq[0] = v; int o = (int)s.getQStart(SubsystemIndex(sb)); m.q[o] = v; } m.qChange = m.seq; modelBackUp(m, 4); }
                            else { Vector& sz = s.updZ(SubsystemIndex(sb)); if (sz.size()) { sz[0] = v; int o = (int)s.getZStart(SubsystemIndex(sb)); m.z[o] = v; } m.zChange = m.seq; modelBackUp(m, 6); }
                            (void)oq; (void)ou; (void)oz; (void)nq; (void)nu; (void)nz; (void)setOne;
                            break; }
                        }
                    }
                }
                else if (op.kind == "setdv") {
                    int i = (int)(op.num("i", 0) % std::max<size_t>(1, dvs.size()));
                    if (!dvs.empty() && m.dv[i].exists) {
                        long v = ++uniq; Value<long>::updDowncast(s.updDiscreteVariable(SubsystemIndex(dvs[i].sub), L.dvIx[i])) = v;
                        m.dv[i].value = v; m.dv[i].lastChange = m.seq; m.dv[i].lastUpd = m.t;
                        if (dvs[i].autoUpd) L.upd[i].marked = -1;   // "always invalidated by an explicit change to the variable"
                        modelBackUp(m, dvs[i].invalidates - 1);
                        if (dvs[i].invalidates <= 2) ++probeRemodel;
                    }
                }
                else if (op.kind == "mark") {
                    int i = (int)(op.num("i", 0) % std::max(1, nPlainCe)); const CeSpec& c = ces[i];
                    if (nPlainCe && m.ce[i].exists && m.subStage[c.sub] >= c.earliest) {      // computed only once its depends-on stage is realized
                        long v = ++uniq; Value<long>::updDowncast(s.updCacheEntry(SubsystemIndex(c.sub), L.ceIx[i])) = v;
                        s.markCacheValueRealized(SubsystemIndex(c.sub), L.ceIx[i]);
                        bool was = modelValid(m, i); m.ce[i].value = v; m.ce[i].marked = m.seq++; m.ce[i].unknown = false;
                        if (!was) ++probeVIV; if (c.q || c.u || c.z || c.dvs.size() || c.ces.size()) ++probePrereq;
                    }
                }
                else if (op.kind == "unmark") {
                    int i = (int)(op.num("i", 0) % std::max(1, nPlainCe));
                    if (nPlainCe && m.ce[i].exists) { s.markCacheValueNotRealized(SubsystemIndex(ces[i].sub), L.ceIx[i]); m.ce[i].invalidated = m.seq++; m.ce[i].unknown = false; }
                }
                else if (op.kind == "markupd") {
                    int i = (int)(op.num("i", 0) % std::max<size_t>(1, dvs.size()));
                    if (!dvs.empty() && m.dv[i].exists && dvs[i].autoUpd && m.subStage[dvs[i].sub] >= dvs[i].updDepends - 1) {
                        // compute the update value while (at least) working on its depends-on stage, as realize code does
                        long v = ++uniq; Value<long>::updDowncast(s.updDiscreteVarUpdateValue(SubsystemIndex(dvs[i].sub), L.dvIx[i])) = v;
                        s.markDiscreteVarUpdateValueRealized(SubsystemIndex(dvs[i].sub), L.dvIx[i]);
                        L.upd[i] = {v, m.seq++};
                    }
                }
                else if (op.kind == "autoupdate") {
                    if (m.sysStage >= 3) {
                        s.autoUpdateDiscreteVariables();
                        for (size_t i = 0; i < dvs.size(); ++i) if (dvs[i].autoUpd && m.dv[i].exists) {
                            if (updValid(L, (int)i)) { std::swap(m.dv[i].value, L.upd[i].value); L.upd[i].marked = -1; ++probeSwap; } else ++probeSwapNo;
                        }
                    }
                }
                else if (op.kind == "invalidate") {
                    int g = (int)std::max(2L, std::min(9L, op.num("stage", 5)));
                    if (op.num("cacheonly", 0)) { if (g < 3) g = 3; s.invalidateAllCacheAtOrAbove(Stage(g)); } else s.invalidateAll(Stage(g));
                    modelBackUp(m, g - 1);
                }
                else if (op.kind == "copy") {
                    int how = (int)(op.num("how", 0) % 4); ++probeCopy;
                    Live& src = L; Live& dst = (&L == &A) ? B : A;
                    std::unique_ptr<State> ns;
                    if (how == 0 || !dst.s) ns.reset(new State(*src.s));                   // copy construction
                    else if (how == 1) { ns = std::move(dst.s); *ns = *src.s; }              // assignment into an existing State
                    else if (how == 2) { State tmp(*src.s); ns.reset(new State(std::move(tmp))); }   // copy then move construction
                    else { State tmp(*src.s); ns = std::move(dst.s); *ns = std::move(tmp); }   // move assignment
                    Live nd; nd.s = std::move(ns); nd.m = src.m; nd.dvIx = src.dvIx; nd.ceIx = src.ceIx; nd.updIx = src.updIx;
                    // a copy keeps what exists through Instance stage and no realization beyond it
                    for (int sb = 0; sb < nsub; ++sb) { if (nd.m.subStage[sb] > 3) { for (int st = 4; st <= nd.m.subStage[sb]; ++st) nd.m.stageInv[sb][st] = nd.m.seq; nd.m.subStage[sb] = 3; } }
                    if (nd.m.sysStage > 3) nd.m.sysStage = 3; ++nd.m.seq;
                    // nothing computed in the source counts as computed in the copy unless it depends only on what was copied
                    for (size_t i = 0; i < ces.size(); ++i) if (nd.m.ce[i].exists) { if (ces[i].earliest > 3) nd.m.ce[i].marked = -1;
                        // an entry that depends only on what is copied may or may not count as computed in the copy, but a copy never makes
                        // valid what was invalid in the source at that moment (explicitly un-marked, prerequisite changed, stage too low)
                        else if (modelValid(src.m, (int)i)) nd.m.ce[i].unknown = true; }
                    nd.upd = src.upd; for (auto& kv : nd.upd) kv.second.marked = -1;
                    nd.lastQv = nd.lastUv = nd.lastZv = -1; nd.seenQ = nd.seenU = nd.seenZ = 0;
                    dst = std::move(nd); haveB = true;
                }
                if (res.violation) break;
                verify(A, "A"); if (haveB) verify(B, "B");
                verifyUpd(A, "A"); if (haveB) verifyUpd(B, "B");
                hash.mix(A.m.sysStage); hash.mix(haveB ? B.m.sysStage : 77);
            }
        } catch (const std::exception& e) { res.fail("unexpected-exception", "exception", std::string(e.what()) + " [during " + opctx + "]"); }
        res.count("probe_entry_valid_invalid_valid", probeVIV); res.count("probe_copies", probeCopy); res.count("probe_remodel", probeRemodel); res.count("probe_prerequisite_entry_marked", probePrereq);
        res.count("probe_autoupdate_swapped", probeSwap); res.count("probe_autoupdate_no_valid_update", probeSwapNo);
        res.nontrivial = probeVIV >= 2 && probeCopy >= 1; res.simtime = (double)p.ops.size();
        res.key = key.h; res.hash = hash.h;
        return res;
    }

    // ---- update values of auto-update variables (own little model: value, when marked, whether marked at/after the depends-on stage)
    bool updValid(Live& L, int i) {
        auto it = L.upd.find(i); if (it == L.upd.end() || it->second.marked < 0) return false;
        const DvSpec& d = dvs[i]; const Model& m = L.m;
        if (m.subStage[d.sub] < d.updDepends) return false;
        return it->second.marked > m.stageInv[d.sub][d.updDepends];
    }
    void verifyUpd(Live& L, const char* who) {
        if (R->violation) return;
        for (size_t i = 0; i < dvs.size(); ++i) if (dvs[i].autoUpd && L.m.dv[i].exists) {
            bool want = updValid(L, (int)i), got = L.s->isDiscreteVarUpdateValueRealized(SubsystemIndex(dvs[i].sub), L.dvIx[i]);
            if (want != got) { fail(got ? "update-value-valid-but-stale" : "update-value-invalid-but-current", "auto-update", std::string(who) + ": update value of auto-update variable " + std::to_string(i) + " reads " + (got ? "valid" : "invalid") + " but by the documented model it is " + (want ? "valid" : "invalid")); return; }
            if (want) { long v = Value<long>::downcast(L.s->getDiscreteVarUpdateValue(SubsystemIndex(dvs[i].sub), L.dvIx[i])); if (v != L.upd[i].value) { fail("update-value", "auto-update", "update value differs"); return; } }
        }
    }
};

int main(int argc, char** argv) { C18 e; return vf::engineMain(argc, argv, e); }
