#include "Simbody.h"
#include "/verif/sim/common/common.h"
#include <malloc.h>
using namespace SimTK; using vf::Rng;
int main(int argc, char** argv) {
  uint64_t seed = std::strtoull(argv[1], 0, 10); int pb = atoi(argv[2]); mallopt(M_PERTURB, pb);
  Rng r(seed); vf::Hash h;
  int n = r.range(5, 12); Vector x(n), y(n); for (int i = 0; i < n; ++i) { x[i] = i + r.uni(0, 0.5); y[i] = r.uni(-1, 1); }
  std::printf("n=%d\n", n); fflush(stdout);
  Spline sp = SplineFitter<Real>::fitFromGCV(3, x, y).getSpline(); for (int i = 0; i < 8; ++i) { Vector a(1, r.uni(0, n - 1.0)); h.mixd(sp.calcValue(a)); }
  std::printf("hash %016llx\n", (unsigned long long)h.h);
}
